"""Program generators for the Core machine checks (C03, C05, C06, C09).
Every node carries two renditions of the same program: `.core` (tagged lists for Core.tla, derived forms
desugared) and `.scm` (surface Scheme for chibi).  Effects (emit, set!, raise, continuation calls, calls of
effectful procedures) occur only in sequenced positions, operands are atoms or pure primitive applications,
so that the result does not depend on the order of argument evaluation (R7RS leaves it open)."""
import random


class N:
    __slots__ = ("core", "scm")

    def __init__(self, core, scm):
        self.core = core
        self.scm = scm


_gensym = [0]


def fresh(prefix="t"):
    _gensym[0] += 1
    return "%s%d" % (prefix, _gensym[0])


def I(n):
    return N(["const", ["i", n]], str(n))


def B(b):
    return N(["const", ["b", 1 if b else 0]], "#t" if b else "#f")


def QB(b):
    """a QUOTED boolean constant: the same value, but a literal node for the compiler"""
    return N(["const", ["b", 1 if b else 0]], "'#t" if b else "'#f")


def S(name):
    return N(["const", ["s", name]], "'" + name)


NIL = N(["const", ["nil"]], "'()")
VOID = N(["prim", "void", []], "(if #f #f)")


def V(x):
    return N(["var", x], x)


def lam(params, rest, body):
    ps = " ".join(params)
    if rest:
        head = "(%s . %s)" % (ps, rest) if params else rest
    else:
        head = "(%s)" % ps
    return N(["lam", list(params), rest or "", body.core], "(lambda %s %s)" % (head, body.scm))


def app(f, args):
    return N(["app", f.core, [a.core for a in args]], "(%s)" % " ".join([f.scm] + [a.scm for a in args]))


def prim(name, *args):
    return N(["prim", name, [a.core for a in args]], "(%s)" % " ".join([name] + [a.scm for a in args]))


def if_(c, t, e):
    return N(["if", c.core, t.core, e.core], "(if %s %s %s)" % (c.scm, t.scm, e.scm))


def set_(x, e):
    return N(["set", x, e.core], "(set! %s %s)" % (x, e.scm))


def begin(*es):
    es = list(es)
    if len(es) == 1:
        return es[0]
    return N(["begin", [e.core for e in es]], "(begin %s)" % " ".join(e.scm for e in es))


def letrec(names, inits, body):
    return N(["letrec", list(names), [i.core for i in inits], body.core],
             "(letrec* (%s) %s)" % (" ".join("(%s %s)" % (n, i.scm) for n, i in zip(names, inits)), body.scm))


def let(bindings, body):
    names = [b[0] for b in bindings]
    inits = [b[1] for b in bindings]
    return N(["app", ["lam", names, "", body.core], [i.core for i in inits]],
             "(let (%s) %s)" % (" ".join("(%s %s)" % (n, i.scm) for n, i in bindings), body.scm))


def letstar(bindings, body):
    if not bindings:
        return N(body.core, "(let* () %s)" % body.scm)
    core = body.core
    for n, i in reversed(bindings):
        core = ["app", ["lam", [n], "", core], [i.core]]
    return N(core, "(let* (%s) %s)" % (" ".join("(%s %s)" % (n, i.scm) for n, i in bindings), body.scm))


def named_let(name, bindings, body):
    names = [b[0] for b in bindings]
    inits = [b[1] for b in bindings]
    core = ["app", ["letrec", [name], [["lam", names, "", body.core]], ["var", name]], [i.core for i in inits]]
    return N(core, "(let %s (%s) %s)" % (name, " ".join("(%s %s)" % (n, i.scm) for n, i in bindings), body.scm))


def do_loop(var, init, step, test, result, body):
    loop = fresh("doloop")
    core = ["app", ["letrec", [loop], [["lam", [var], "", ["if", test.core, result.core,
                                                              ["begin", [body.core, ["app", ["var", loop], [step.core]]]]]]],
                    ["var", loop]], [init.core]]
    return N(core, "(do ((%s %s %s)) (%s %s) %s)" % (var, init.scm, step.scm, test.scm, result.scm, body.scm))


def body_with_defines(defs, stmts):
    """(lambda-body style) internal defines followed by statements -> letrec* in the core."""
    names = [d[0] for d in defs]
    inits = [d[1] for d in defs]
    b = begin(*stmts)
    scm = " ".join("(define %s %s)" % (n, i.scm) for n, i in defs) + " " + " ".join(s.scm for s in stmts)
    if not defs:
        return N(b.core, scm)
    return N(["letrec", names, [i.core for i in inits], b.core], scm)


def lam_body(params, rest, bodynode):
    """lambda whose body is a body_with_defines node (scm has several forms)."""
    ps = " ".join(params)
    head = ("(%s . %s)" % (ps, rest) if params else rest) if rest else "(%s)" % ps
    return N(["lam", list(params), rest or "", bodynode.core], "(lambda %s %s)" % (head, bodynode.scm))


def cond(clauses, else_):
    core = else_.core
    for c, e in reversed(clauses):
        core = ["if", c.core, e.core, core]
    return N(core, "(cond %s (else %s))" % (" ".join("(%s %s)" % (c.scm, e.scm) for c, e in clauses), else_.scm))


def and_(*es):
    if not es:
        return B(True)
    core = es[-1].core
    for e in reversed(es[:-1]):
        core = ["if", e.core, core, ["const", ["b", 0]]]
    return N(core, "(and %s)" % " ".join(e.scm for e in es))


def or_(*es):
    if not es:
        return B(False)
    core = es[-1].core
    for e in reversed(es[:-1]):
        t = fresh("ort")
        core = ["app", ["lam", [t], "", ["if", ["var", t], ["var", t], core]], [e.core]]
    return N(core, "(or %s)" % " ".join(e.scm for e in es))


def when(c, *body):
    b = begin(*body)
    return N(["if", c.core, b.core, ["prim", "void", []]], "(when %s %s)" % (c.scm, " ".join(x.scm for x in body)))


def unless(c, *body):
    b = begin(*body)
    return N(["if", c.core, ["prim", "void", []], b.core], "(unless %s %s)" % (c.scm, " ".join(x.scm for x in body)))


def case(key, clauses, else_):
    """clauses: list of ([int data], expr)"""
    t = fresh("casek")
    core = else_.core
    for data, e in reversed(clauses):
        test = ["const", ["b", 0]]
        for d in reversed(data):
            test = ["if", ["prim", "eqv?", [["var", t], ["const", ["i", d]]]], ["const", ["b", 1]], test]
        core = ["if", test, e.core, core]
    core = ["app", ["lam", [t], "", core], [key.core]]
    return N(core, "(case %s %s (else %s))" % (key.scm, " ".join("((%s) %s)" % (" ".join(map(str, d)), e.scm) for d, e in clauses), else_.scm))


def emit(e):
    return N(["emit", e.core], "(emit %s)" % e.scm)


def delay_force(e):
    return N(["delayf", e.core], "(delay-force %s)" % e.scm)


def delay(e):
    return N(["delayf", ["mkprom", e.core]], "(delay %s)" % e.scm)


def make_promise(e):
    return N(["mkprom", e.core], "(make-promise %s)" % e.scm)


def force(e):
    return N(["force", e.core], "(force %s)" % e.scm)


def callcc(f):
    return N(["callcc", f.core], "(call-with-current-continuation %s)" % f.scm)


def dw(b, t, a):
    return N(["dw", b.core, t.core, a.core], "(dynamic-wind %s %s %s)" % (b.scm, t.scm, a.scm))


def weh(h, t):
    return N(["weh", h.core, t.core], "(with-exception-handler %s %s)" % (h.scm, t.scm))


def raise_(e):
    return N(["raise", e.core], "(raise %s)" % e.scm)


def raisec(e):
    return N(["raisec", e.core], "(raise-continuable %s)" % e.scm)


def mkparam(init, conv=None):
    return N(["mkparam", init.core, conv.core if conv else ["none"]],
             "(make-parameter %s%s)" % (init.scm, " " + conv.scm if conv else ""))


def paramz(bindings, body):
    return N(["paramz", [p.core for p, v in bindings], [v.core for p, v in bindings], body.core],
             "(parameterize (%s) %s)" % (" ".join("(%s %s)" % (p.scm, v.scm) for p, v in bindings), body.scm))


def values(*es):
    return N(["values", [e.core for e in es]], "(values %s)" % " ".join(e.scm for e in es))


def cwv(p, c):
    return N(["cwv", p.core, c.core], "(call-with-values %s %s)" % (p.scm, c.scm))


def apply_(f, l):
    return N(["apply", f.core, l.core], "(apply %s %s)" % (f.scm, l.scm))


def thunk(*body):
    return lam([], None, begin(*body))


def guard(var, clauses, body, reraise=True):
    """(guard (var (test expr) ...) body) with the R7RS reference expansion in the core; body is single-valued."""
    gk, hk, cond_, x = fresh("guardk"), fresh("handlerk"), fresh("condition"), fresh("gv")
    inner = app(V(hk), [thunk(raisec(V(cond_)))]) if reraise else VOID
    handler_body = let([(var, V(cond_))], cond(clauses, inner)) if clauses else let([(var, V(cond_))], inner)
    core = app(callcc(lam([gk], None,
               weh(lam([cond_], None,
                       app(callcc(lam([hk], None, app(V(gk), [thunk(handler_body)]))), [])),
                   thunk(cwv(thunk(body), lam([x], None, app(V(gk), [thunk(V(x))]))))))), [])
    scm_clauses = " ".join("(%s %s)" % (c.scm, e.scm) for c, e in clauses)
    return N(core.core, "(guard (%s %s) %s)" % (var, scm_clauses, body.scm))


def quasi_list(items):
    """items: list of ('q', int|sym-node) / ('u', node) / ('s', list-node)  ->  `(...)"""
    core = ["const", ["nil"]]
    for kind, x in reversed(items):
        if kind == "s":
            core = ["prim", "append", [x.core, core]]
        else:
            core = ["prim", "cons", [x.core, core]]
    parts = []
    for kind, x in items:
        if kind == "q":
            parts.append(x.scm.lstrip("'"))
        elif kind == "u":
            parts.append("," + x.scm)
        else:
            parts.append(",@" + x.scm)
    return N(core, "`(%s)" % " ".join(parts))


def wrap_toplevel(body):
    """Both renditions get the same top-level wrapper: an uncaught condition is emitted and control escapes."""
    top, e = fresh("top"), fresh("exn")
    return callcc(lam([top], None,
                      weh(lam([e], None, begin(emit(S("UNCAUGHT")), emit(V(e)), app(V(top), [I(0)]))),
                          thunk(body, I(0)))))


# --------------------------------------------------------------------------- C03: data/closure programs
class Gen03:
    def __init__(self, rng):
        self.r = rng

    def atom(self, ints):
        if ints and self.r.random() < 0.65:
            return V(self.r.choice(ints))
        return I(self.r.randrange(-5, 12))

    def pure(self, ints, depth=2):
        if depth == 0 or self.r.random() < 0.35:
            return self.atom(ints)
        k = self.r.randrange(6)
        a, b = self.pure(ints, depth - 1), self.pure(ints, depth - 1)
        if k == 0:
            return prim("+", a, b)
        if k == 1:
            return prim("-", a, b)
        if k == 2:
            return prim("*", a, self.atom([]))
        if k == 3:
            return if_(prim("<", a, b), a, b)
        if k == 4:
            return prim("+", a, b, self.atom(ints))
        return prim("-", a)

    def test(self, ints):
        a, b = self.pure(ints, 1), self.pure(ints, 1)
        k = self.r.randrange(5)
        if k == 0:
            return prim("<", a, b)
        if k == 1:
            return prim("=", a, b)
        if k == 2:
            return and_(prim("<", a, b), prim(">", b, I(0)))
        if k == 3:
            return or_(prim("=", a, I(0)), prim("<", b, a))
        return prim("not", prim("<", a, b))

    def stmts(self, ints, fns, depth, n):
        """list of statement nodes; ints: visible int variables; fns: visible (name, nparams, variadic)"""
        out = []
        for _ in range(n):
            out.append(self.stmt(ints, fns, depth))
        return out

    def stmt(self, ints, fns, depth):
        r = self.r
        k = r.randrange(14)
        if k <= 1 or depth <= 0:
            return emit(self.pure(ints))
        mut = [x for x in ints if not x.startswith(("i", "j"))]      # loop variables are never assigned (termination)
        if k == 2 and mut:
            return set_(r.choice(mut), self.pure(ints))
        if k == 3:
            return if_(self.test(ints), begin(*self.stmts(ints, fns, depth - 1, 2)), begin(*self.stmts(ints, fns, depth - 1, 1)))
        if k == 4:
            x = fresh("v")
            return let([(x, self.pure(ints))], begin(*self.stmts(ints + [x], fns, depth - 1, 2)))
        if k == 5 and ints:                       # shadowing
            x = r.choice(ints)
            return let([(x, prim("+", V(x), I(1)))], begin(emit(V(x)), *self.stmts(ints, fns, depth - 1, 1)))
        if k == 6 and fns:                        # call a known function, result bound then used
            f, np, var = r.choice(fns)
            args = [self.atom(ints) for _ in range(np + (r.randrange(3) if var else 0))]
            x = fresh("r")
            return let([(x, app(V(f), args))], emit(V(x)))
        if k == 7:                                # named let loop with accumulator
            i, acc, loop = fresh("i"), fresh("acc"), fresh("loop")
            n = r.randrange(1, 5)
            body = if_(prim("=", V(i), I(n)), V(acc),
                       app(V(loop), [prim("+", V(i), I(1)), prim("+", V(acc), self.pure(ints + [i], 1))]))
            return emit(named_let(loop, [(i, I(0)), (acc, self.atom(ints))], body))
        if k == 8:                                # do loop with effects in the body
            i = fresh("j")
            return do_loop(i, I(0), prim("+", V(i), I(1)), prim("=", V(i), I(r.randrange(1, 4))), VOID,
                           begin(*self.stmts(ints + [i], fns, depth - 1, 1)))
        if k == 9:
            return cond([(self.test(ints), begin(*self.stmts(ints, fns, depth - 1, 1))),
                         (self.test(ints), begin(*self.stmts(ints, fns, depth - 1, 1)))],
                        begin(*self.stmts(ints, fns, depth - 1, 1)))
        if k == 10:
            return case(self.pure(ints, 1), [([0, 1, 2], emit(I(100))), ([3, 4], begin(*self.stmts(ints, fns, depth - 1, 1)))], emit(I(300)))
        if k == 11:
            return when(self.test(ints), *self.stmts(ints, fns, depth - 1, 2)) if r.random() < 0.5 else unless(self.test(ints), *self.stmts(ints, fns, depth - 1, 2))
        if k == 12:                               # multiple values
            a, b = fresh("mv"), fresh("mv")
            return cwv(thunk(values(self.pure(ints), self.pure(ints))), lam([a, b], None, emit(prim("-", V(a), V(b)))))
        # quasiquote / lists / apply
        l = fresh("lst")
        return let([(l, quasi_list([("q", I(1)), ("u", self.pure(ints)), ("s", prim("list", self.atom(ints), self.atom(ints))), ("q", S("z"))]))],
                   begin(emit(V(l)), emit(prim("length", V(l))), emit(apply_(lam([], "xs", prim("length", V("xs"))), V(l)))))

    def function(self, ints, fns, depth, nest):
        """returns (name, nparams, variadic, lambda node).  The body captures and mutates outer variables,
        defines inner functions (forward references between internal defines), uses rest arguments."""
        r = self.r
        name = fresh("f")
        np = r.randrange(0, 3)
        params = [fresh("p") for _ in range(np)]
        variadic = r.random() < 0.3
        rest = fresh("rest") if variadic else None
        local = fresh("loc")
        inner_ints = ints + params + [local]
        defs = [(local, self.pure(ints + params))]
        inner_fns = list(fns)
        if nest > 0 and r.random() < 0.7:
            g = self.function(inner_ints, inner_fns, depth - 1, nest - 1)
            defs.append((g[0], g[3]))
            inner_fns.append(g[:3])
            if r.random() < 0.4:                  # mutual recursion through forward reference
                ev, od = fresh("ev"), fresh("od")
                n1, n2 = fresh("n"), fresh("n")
                defs.append((ev, lam([n1], None, if_(prim("<=", V(n1), I(0)), I(1), app(V(od), [prim("-", V(n1), I(1))])))))
                defs.append((od, lam([n2], None, if_(prim("<=", V(n2), I(0)), I(0), app(V(ev), [prim("-", V(n2), I(1))])))))
                inner_fns.append((ev, 1, False))
        st = self.stmts(inner_ints, inner_fns, depth - 1, r.randrange(1, 4))
        if variadic:
            st.append(emit(prim("length", V(rest))))
        mut = [x for x in ints if not x.startswith(("i", "j"))]
        if mut and r.random() < 0.6:
            x = r.choice(mut)
            st.append(set_(x, prim("+", V(x), self.atom(inner_ints))))      # mutate a captured variable
        st.append(self.pure(inner_ints))                                     # return value
        body = body_with_defines(defs, st)
        return (name, np, variadic, lam_body(params, rest, body))

    def program(self):
        r = self.r
        ints, fns, binds = [], [], []
        for _ in range(r.randrange(1, 4)):
            x = fresh("g")
            binds.append((x, self.pure(ints)))
            ints.append(x)
        defs = []
        for _ in range(r.randrange(1, 4)):
            f = self.function(ints, fns, 3, r.randrange(0, 4))
            defs.append((f[0], f[3]))
            fns.append(f[:3])
        # a counter generator: closure over a mutated local
        mk, c, n = fresh("mkcounter"), fresh("cnt"), fresh("c")
        defs.append((mk, lam([n], None, lam([], None, begin(set_(n, prim("+", V(n), I(1))), V(n))))))
        defs.append((c, app(V(mk), [self.atom(ints)])))
        fns.append((c, 0, False))
        st = self.stmts(ints, fns, 3, r.randrange(3, 7))
        st.append(emit(prim("list", *[V(x) for x in ints])))
        body = N(["letrec", [d[0] for d in defs], [d[1].core for d in defs], begin(*st).core],
                 "(let () %s %s)" % (" ".join("(define %s %s)" % (d[0], d[1].scm) for d in defs), " ".join(s.scm for s in st)))
        return letstar(binds, body)


def capture_case(pattern, depth, position):
    """Systematic capture patterns (C03): variable of the given position is captured / mutated / shadowed ...
    through `depth` nested lambdas."""
    v = "cv"
    inner_use = {"captured": [emit(V(v))],
                 "mutated": [set_(v, prim("+", V(v), I(10))), emit(V(v))],
                 "captured+mutated": [emit(V(v)), set_(v, prim("*", V(v), I(2))), emit(V(v))],
                 "shadowed": [let([(v, I(77))], emit(V(v))), emit(V(v))],
                 "unused": [emit(I(5))]}.get(pattern)
    if pattern == "forward":
        # internal define referring to a later define, called after both exist
        a, b = fresh("fa"), fresh("fb")
        inner = body_with_defines([(a, lam([], None, app(V(b), [V(v)]))), (b, lam(["q"], None, prim("+", V("q"), I(1))))], [emit(app(V(a), []))])
        inner_node = lam_body([], None, inner)
    elif pattern == "rest":
        inner_node = lam([], "more", begin(emit(V(v)), emit(prim("length", V("more"))), emit(V("more"))))
    elif pattern == "named-let-tag":
        # (let ((tag 10)) (let tag ((i tag)) ...)): the inits are evaluated OUTSIDE the scope of the tag (R7RS 4.2.4)
        tag, i = fresh("nltag"), fresh("nli")
        inner_node = thunk(let([(tag, prim("+", V(v), I(10)))],
                               emit(named_let(tag, [(i, V(tag)), ("nacc", I(0))],
                                              if_(prim("<", V(i), I(1)), V("nacc"), app(V(tag), [prim("-", V(i), I(5)), prim("+", V("nacc"), V(i))]))))))
    elif pattern == "rest-set-only":
        # the rest parameter is assigned but never read; the caller keeps live temporaries around the call
        f, y = fresh("frs"), fresh("yrs")
        inner_node = thunk(let([(f, lam(["a"], "more", begin(set_("more", I(1)), V("a")))), (y, prim("+", V(v), I(10)))],
                               begin(emit(prim("+", app(V(f), [I(1)]), V(y))), emit(prim("+", app(V(f), [I(2), I(3), I(4)]), V(y))))))
    else:
        inner_node = thunk(*inner_use)
    node = inner_node
    call_args = [I(1), I(2)] if pattern == "rest" else []
    # wrap in depth-1 further lambdas, each immediately called, each with its own local that is also used
    expr = app(node, call_args)
    for d in range(depth - 1):
        w = fresh("w")
        expr = app(lam([w], None, begin(emit(V(w)), expr, emit(prim("+", V(w), V(v))))), [I(d + 20)])
    after = [emit(V(v))]
    if position == "param":
        return app(lam([v], None, begin(expr, *after)), [I(3)])
    if position == "local":
        return let([(v, I(4))], begin(expr, *after))
    # closure: variable lives in a closure that is returned and called twice
    mk = fresh("mk")
    clo = fresh("clo")
    return letstar([(mk, lam([v], None, lam([], None, begin(expr, V(v))))), (clo, app(V(mk), [I(6)]))],
                   begin(emit(app(V(clo), [])), emit(app(V(clo), []))))


PATTERNS = ["captured", "mutated", "captured+mutated", "shadowed", "forward", "rest", "rest-set-only", "named-let-tag", "unused"]
POSITIONS = ["param", "local", "closure"]


# --------------------------------------------------------------------------- C06: control scripts
class Gen06:
    """Control scripts: nested dynamic-wind / call/cc / throws / raises / handlers / guard / parameterize."""

    def __init__(self, rng):
        self.r = rng
        self.winds = 0
        self.konts = []          # names of global variables holding captured continuations
        self.counters = {}
        self.params = []
        self.evn = 0

    def ev(self):
        self.evn += 1
        return emit(I(1000 + self.evn))

    def body(self, depth, inside_handler=False):
        n = self.r.randrange(1, 4)
        return [self.item(depth) for _ in range(n)]

    def item(self, depth):
        r = self.r
        k = r.randrange(12) if depth > 0 else 0
        if k == 0:
            return self.ev()
        if k == 1 and self.winds < 4:
            self.winds += 1
            w = self.winds
            node = dw(thunk(emit(I(100 + w))), thunk(*self.body(depth - 1), I(0)), thunk(emit(I(200 + w))))
            return node
        if k == 2 and len(self.konts) < 3:
            kv = fresh("kont")
            cnt = fresh("kcount")
            self.konts.append((kv, cnt))
            x = fresh("kx")
            # capture; body may throw to it later (also from outside its extent); re-entry bounded by the counter
            return begin(emit(callcc(lam([x], None, begin(set_(kv, V(x)), *self.body(depth - 1), I(300))))), self.ev())
        if k == 3 and self.konts:
            kv, cnt = r.choice(self.konts)
            return when(and_(prim("procedure?", V(kv)), prim("<", V(cnt), I(2))),
                        set_(cnt, prim("+", V(cnt), I(1))), app(V(kv), [prim("+", I(400), V(cnt))]))
        if k == 4:
            # handler that returns a value for raise-continuable
            x = fresh("hx")
            return emit(weh(lam([x], None, begin(emit(V(x)), prim("+", V(x), I(1)))),
                            thunk(*self.body(depth - 1), prim("+", raisec(I(r.randrange(500, 510))), I(1000)))))
        if k == 5:
            # guard catching a raise from inside nested winds
            e = fresh("ge")
            return emit(guard(e, [(prim("<", V(e), I(650)), begin(emit(V(e)), I(600))) if False else (B(True), begin(emit(V(e)), I(600)))],
                              begin(*self.body(depth - 1), raise_(I(r.randrange(601, 700))), I(0))))
        if k == 6:
            # guard that does not match: re-raise to an outer guard (through winds)
            e1, e2 = fresh("ge"), fresh("ge")
            inner = guard(e1, [(prim("=", V(e1), I(-1)), I(0))], begin(*self.body(depth - 1), raise_(I(r.randrange(701, 800))), I(0)))
            return emit(guard(e2, [(B(True), begin(emit(V(e2)), I(700)))], inner))
        if k == 7:
            p = fresh("prm")
            self.params.append(p)
            return begin(emit(app(V(p), [])), paramz([(V(p), I(r.randrange(800, 900)))], begin(emit(app(V(p), [])), *self.body(depth - 1))), emit(app(V(p), [])))
        if k == 8 and self.params:
            return emit(app(V(r.choice(self.params)), []))
        if k == 9:
            # handler escaping through a continuation out of winds
            x, esc = fresh("hx"), fresh("esc")
            return emit(callcc(lam([esc], None, weh(lam([x], None, app(V(esc), [prim("+", V(x), I(1))])),
                                                 thunk(*self.body(depth - 1), raise_(I(r.randrange(900, 950))), I(0))))))
        if k == 10:
            # handler context: a raise inside a handler goes to the outer handler
            x, y = fresh("hx"), fresh("hy")
            return emit(weh(lam([y], None, begin(emit(V(y)), I(960))),
                            thunk(weh(lam([x], None, prim("+", raisec(prim("+", V(x), I(1))), I(1))),
                                      thunk(prim("+", raisec(I(r.randrange(950, 959))), I(1)))))))
        return self.ev()

    def program(self):
        body = self.body(3)
        binds = []
        for kv, cnt in self.konts:
            binds += [(kv, B(False)), (cnt, I(0))]
        for p in self.params:
            binds.append((p, mkparam(I(self.r.randrange(10, 20)), lam(["pv"], None, prim("+", V("pv"), I(1))) if self.r.random() < 0.4 else None)))
        return letstar(binds, begin(*body, emit(S("end"))))


# --------------------------------------------------------------------------- C09: foldable arithmetic
class Gen09(Gen03):
    BIG = [4611686018427387903, -4611686018427387904, 2147483647, 3037000500]

    def const_expr(self, depth=3):
        r = self.r
        if depth == 0 or r.random() < 0.3:
            return I(r.choice([0, 1, 2, 3, -1, 7, 10, 100]))
        a, b = self.const_expr(depth - 1), self.const_expr(depth - 1)
        k = r.randrange(7)
        if k == 0:
            return prim("+", a, b)
        if k == 1:
            return prim("-", a, b)
        if k == 2:
            return prim("*", a, I(r.choice([0, 1, 2, 3, -2])))
        if k == 3:
            return prim("quotient", a, b)          # may divide by zero: must raise at run time, not at compile time
        if k == 4:
            return prim("remainder", a, b)
        if k == 5:
            return if_(prim("<", a, b), a, b)
        return if_(B(r.random() < 0.5), a, b)

    def program(self):
        r = self.r
        st = []
        for _ in range(r.randrange(3, 7)):
            k = r.randrange(7)
            e = fresh("e")
            if k == 0:
                st.append(emit(guard(e, [(B(True), S("caught"))], self.const_expr())))
            elif k == 1:      # constant-bound let with shadowing and mutation
                x = fresh("cl")
                st.append(let([(x, self.const_expr(2))], begin(emit(guard(e, [(B(True), S("caught"))], V(x))),
                                                                   let([(x, prim("+", V(x), I(1)))], emit(V(x))),
                                                                   set_(x, prim("*", V(x), I(3))), emit(V(x)))))
            elif k == 2:      # constant test, dead branch with an effect that must not happen
                st.append(if_(prim("<", I(1), I(2)), emit(I(11)), emit(I(12))))
                st.append(if_(B(False), emit(I(13)), VOID))
                # the same with QUOTED constants (literal nodes) and constants that reach the test through a let
                qv = fresh("qc")
                st.append(if_(QB(r.random() < 0.5), emit(I(14)), emit(I(15))))
                st.append(let([(qv, QB(r.random() < 0.5))], if_(V(qv), emit(I(16)), emit(I(17)))))
                st.append(let([(qv, N(["const", ["nil"]], "'()"))], if_(V(qv), emit(I(18)), emit(I(19)))))
                st.append(emit(if_(prim("not", QB(False)), S("yes"), S("no"))))
            elif k == 3 and r.random() < 0.5:      # a type predicate whose value is unused but whose ARGUMENT has an effect
                n = fresh("tp")
                st.append(let([(n, I(0))], begin(prim(r.choice(["pair?", "null?", "procedure?"]), begin(set_(n, prim("+", V(n), I(1))), V(n))),
                                                 emit(V(n)),
                                                 prim("not", begin(emit(I(31)), I(5))),
                                                 emit(I(32)))))
            elif k == 3:      # effectful statement in non-tail sequence position must be kept
                st.append(begin(emit(I(21)), self.const_expr(2), emit(I(22)), prim("+", I(1), I(2)), emit(I(23))))
            elif k == 4:      # non-numeric constants folded?  (car '(1 2)) style
                st.append(emit(guard(e, [(B(True), S("caught"))], prim("car", quasi_list([("q", I(1)), ("q", I(2))])))))
                st.append(emit(guard(e, [(B(True), S("caught"))], prim("+", I(1), prim("car", NIL)))))
            elif k == 5:      # unused rest parameter
                st.append(emit(app(lam(["a"], "unused", prim("+", V("a"), I(1))), [self.const_expr(1), I(2), I(3)])))
            elif k == 6 and r.random() < 0.5:      # rest parameter assigned but never read
                st.append(emit(prim("+", app(lam(["a"], "setrest", begin(set_("setrest", I(1)), V("a"))), [self.const_expr(1), I(2)]), I(1000))))
            else:
                st.append(emit(guard(e, [(B(True), S("caught"))], let([("zz", I(0))], prim("quotient", self.const_expr(1), V("zz"))))))
        return begin(*st)


# ---------------------------------------------------------------------------------------------------------------------
# Promises (R7RS 4.2.5): delay / delay-force / make-promise / force - memoisation, sharing after delay-force,
# re-entrant forcing, lazy streams.  Only promises are forced (force of a non-promise is optional in R7RS).
def lazy_cases(rng):
    k = lambda: rng.randrange(1, 50)
    out = []
    # the body of a delay runs once, at the first force
    n, p = fresh("ln"), fresh("lp")
    a = k()
    out.append(("memo", let([(n, I(0))], let([(p, delay(begin(set_(n, prim("+", V(n), I(1))), emit(V(n)), prim("+", V(n), I(a)))))],
                begin(emit(S("made")), emit(force(V(p))), emit(force(V(p))), emit(V(n)))))))
    # R7RS: re-entrant forcing - the first value delivered wins
    cnt, x, p = fresh("lc"), fresh("lx"), fresh("lp")
    lim = rng.randrange(2, 7)
    out.append(("reentrant", let([(cnt, I(0)), (x, I(lim))],
                letrec([p], [delay(begin(set_(cnt, prim("+", V(cnt), I(1))), if_(prim(">", V(cnt), V(x)), V(cnt), force(V(p)))))],
                       begin(emit(force(V(p))), set_(x, I(lim + 5)), emit(force(V(p))), emit(V(cnt)))))))
    # R7RS: (delay-force r) chains share the result; the body of r runs once whichever promise is forced first
    r, s, t = fresh("lr"), fresh("ls"), fresh("lt")
    b = k()
    order = rng.choice([[t, r, s], [r, t, s], [s, t, r]])
    out.append(("chain-sharing", let([(r, delay(begin(emit(S("hi")), I(b))))],
                let([(s, delay_force(V(r)))], let([(t, delay_force(V(s)))],
                    begin(*[emit(force(V(q))) for q in order]))))))
    # make-promise: a value becomes a forced promise, a promise is returned as it is
    m1, m2 = fresh("lm"), fresh("lm")
    c = k()
    out.append(("make-promise", let([(m1, make_promise(I(c)))], let([(m2, make_promise(V(m1)))],
                begin(emit(prim("promise?", V(m1))), emit(prim("promise?", I(c))), emit(force(V(m1))), emit(force(V(m2))),
                      emit(force(make_promise(prim("list", I(c), I(1))))))))))
    # a lazy stream of integers: (ints n) = (delay (cons n (ints (+ n 1)))); take the first j elements
    ints, take, j0 = fresh("lints"), fresh("ltake"), rng.randrange(2, 6)
    st, jj, acc = fresh("lst"), fresh("lj"), fresh("lacc")
    cell = fresh("lcell")
    out.append(("stream", letrec([ints, take],
                [lam(["n"], None, delay(begin(emit(V("n")), prim("cons", V("n"), app(V(ints), [prim("+", V("n"), I(1))]))))),
                 lam([st, jj, acc], None, if_(prim("=", V(jj), I(0)), prim("reverse", V(acc)),
                     let([(cell, force(V(st)))], app(V(take), [prim("cdr", V(cell)), prim("-", V(jj), I(1)), prim("cons", prim("car", V(cell)), V(acc))]))))],
                let([("s0", app(V(ints), [I(k())]))],
                    begin(emit(app(V(take), [V("s0"), I(j0), NIL])), emit(app(V(take), [V("s0"), I(j0 - 1), NIL])))))))
    # an iterative lazy loop (delay-force) computing a sum; the promise is forced twice
    lp, p2 = fresh("lloop"), fresh("lp")
    cntv = rng.randrange(3, 9)
    out.append(("delay-force-loop", letrec([lp], [lam(["i", "a"], None, if_(prim("=", V("i"), I(0)), delay(begin(emit(S("done")), V("a"))),
                                                                  delay_force(app(V(lp), [prim("-", V("i"), I(1)), prim("+", V("a"), V("i"))]))))],
                let([(p2, app(V(lp), [I(cntv), I(0)]))], begin(emit(force(V(p2))), emit(force(V(p2))))))))
    # a promise whose body raises: the error reaches the forcer's handler, a later force runs the body again
    pe, ne = fresh("lpe"), fresh("lne")
    ge = fresh("e")
    out.append(("raise-in-body", let([(ne, I(0))], let([(pe, delay(begin(set_(ne, prim("+", V(ne), I(1))), if_(prim("<", V(ne), I(2)), N(["raise", ["const", ["s", "boom"]]], "(raise 'boom)"), V(ne)))))],
                begin(emit(guard(ge, [(B(True), S("caught"))], force(V(pe)))), emit(force(V(pe))), emit(force(V(pe))))))))
    return out


# --------------------------------------------------------------------------- C03: the remaining derived forms
def let_values(bindings, body, star=False):
    """bindings: list of (params, rest|None, producer-expression).  Names are fresh, so nesting the consumers
    (what let*-values means) is also what let-values means."""
    core = body.core
    for ps, rest, e in reversed(bindings):
        core = ["cwv", ["lam", [], "", e.core], ["lam", list(ps), rest or "", core]]

    def formals(ps, rest):
        if rest:
            return "(%s . %s)" % (" ".join(ps), rest) if ps else rest
        return "(%s)" % " ".join(ps)
    return N(core, "(%s (%s) %s)" % ("let*-values" if star else "let-values",
                                     " ".join("(%s %s)" % (formals(ps, r), e.scm) for ps, r, e in bindings), body.scm))


def case_lambda(clauses):
    """clauses: list of (params, rest|None, body).  Core: dispatch on the length of the argument list, first match wins."""
    args = fresh("clargs")
    core = ["raise", ["const", ["s", "no-matching-clause"]]]
    for ps, rest, body in reversed(clauses):
        n = len(ps)
        test = ["prim", "<=" if rest else "=", [["const", ["i", n]], ["prim", "length", [["var", args]]]]]
        core = ["if", test, ["apply", ["lam", list(ps), rest or "", body.core], ["var", args]], core]

    def formals(ps, rest):
        if rest:
            return "(%s . %s)" % (" ".join(ps), rest) if ps else rest
        return "(%s)" % " ".join(ps)
    return N(["lam", [], args, core], "(case-lambda %s)" % " ".join("(%s %s)" % (formals(ps, r), b.scm) for ps, r, b in clauses))


def do_multi(vars_, test, results, body):
    """vars_: list of (name, init, step|None).  All steps are evaluated in the scope of the OLD bindings and each
    iteration gets FRESH bindings (closures made in the body keep their iteration's values)."""
    loop = fresh("doloop")
    names = [v[0] for v in vars_]
    steps = [(v[2].core if v[2] is not None else ["var", v[0]]) for v in vars_]
    res = begin(*results) if results else VOID
    core = ["app", ["letrec", [loop], [["lam", names, "", ["if", test.core, res.core,
                                                          ["begin", [body.core, ["app", ["var", loop], steps]]]]]],
                    ["var", loop]], [v[1].core for v in vars_]]
    scm = "(do (%s) (%s %s) %s)" % (" ".join("(%s %s%s)" % (n, i.scm, " " + s.scm if s is not None else "") for n, i, s in vars_),
                                   test.scm, " ".join(r.scm for r in results), body.scm)
    return N(core, scm)


def forms_cases(rng):
    """cond/case with =>, case over symbols, let-values / let*-values / define-values / receive-style consumers with rest
    formals, case-lambda, do with several variables (fresh bindings per iteration, parallel steps), letrec, let* with a
    repeated name, named let shadowing its own tag, apply with leading arguments, and/or delivering non-booleans,
    assignment to a rest parameter that a closure has captured."""
    k = lambda a=-3, b=9: rng.randrange(a, b)
    out = []
    # cond with => : the receiver gets the VALUE of the test
    x, t, v = fresh("fx"), fresh("ft"), fresh("fv")
    test = and_(prim(">", V(x), I(3)), prim("+", V(x), I(1)))
    f = lam([v], None, prim("*", V(v), I(2)))
    core = ["app", ["lam", [t], "", ["if", ["var", t], ["app", f.core, [["var", t]]],
                                    ["if", prim("<", V(x), I(0)).core, S("neg").core, S("small").core]]], [test.core]]
    node = N(core, "(cond (%s => %s) ((< %s 0) 'neg) (else 'small))" % (test.scm, f.scm, x))
    out.append(("cond-arrow", let([(x, I(k()))], emit(node))))
    # case over symbols and integers, with => in a clause and in else
    kx, kt = fresh("fk"), fresh("fkt")
    key = rng.choice([S("a"), S("b"), S("q"), I(1), I(7)])
    g = lam([v], None, prim("list", V(v), S("seen")))
    isin = lambda data: ["if", ["prim", "eqv?", [["var", kt], data[0]]], ["const", ["b", 1]],
                         (["prim", "eqv?", [["var", kt], data[1]]] if len(data) > 1 else ["const", ["b", 0]])]
    core = ["app", ["lam", [kt], "", ["if", isin([["const", ["s", "a"]], ["const", ["i", 1]]]), ["const", ["s", "first"]],
                                     ["if", isin([["const", ["s", "b"]]]), ["app", g.core, [["var", kt]]],
                                      ["app", g.core, [["var", kt]]]]]], [["var", kx]]]
    node = N(core, "(case %s ((a 1) 'first) ((b) => %s) (else => %s))" % (kx, g.scm, g.scm))
    out.append(("case-arrow", let([(kx, key)], emit(node))))
    # let-values / let*-values with rest formals
    a, b, c, r, d = fresh("fa"), fresh("fb"), fresh("fc"), fresh("fr"), fresh("fd")
    n1, n2, n3 = k(), k(), k()
    body = begin(emit(prim("list", V(a), V(b), V(c))), emit(V(r)), emit(V(d)))
    for star in (False, True):
        out.append(("let*-values" if star else "let-values",
                    let_values([([a, b], None, values(I(n1), I(n2))),
                                ([c], r, values(I(n3), I(n1), S("w"))),
                                ([], d, values(*[I(n2)] * rng.randrange(0, 3)))], body, star)))
    # let*-values: a later producer sees the earlier variables
    out.append(("let*-values-seq", let_values([([a, b], None, values(I(n1), I(n2))), ([c], None, values(prim("+", V(a), V(b))))],
                                              emit(prim("list", V(a), V(b), V(c))), True)))
    # define-values in a body, followed by a define that uses it
    e1 = fresh("fe")
    core = ["cwv", ["lam", [], "", values(I(n1), I(n2), I(n3)).core],
            ["lam", [a], r, ["letrec", [e1], [prim("+", V(a), I(1)).core], begin(emit(V(e1)), emit(V(r))).core]]]
    out.append(("define-values", N(core, "(let () (define-values (%s . %s) (values %d %d %d)) (define %s (+ %s 1)) (emit %s) (emit %s))"
                                   % (a, r, n1, n2, n3, e1, a, e1, r))))
    # case-lambda: dispatch on the number of arguments, first matching clause
    cl, p, q, rs = fresh("fcl"), fresh("fp"), fresh("fq"), fresh("frs")
    clam = case_lambda([([], None, S("none")), ([p], None, prim("list", S("one"), V(p))),
                        ([p, q], None, prim("list", S("two"), V(q), V(p))),
                        ([p], rs, prim("list", S("many"), V(p), prim("length", V(rs))))])
    calls = [emit(app(V(cl), [I(k()) for _ in range(nargs)])) for nargs in rng.sample(range(0, 6), 4)]
    out.append(("case-lambda", let([(cl, clam)], begin(*calls))))
    # do with two variables: the steps see the OLD values, the closures made in the body keep THEIR iteration's binding
    i, acc, ff = fresh("i"), fresh("facc"), fresh("ff")
    lim = rng.randrange(2, 5)
    loop = do_multi([(i, I(0), prim("+", V(i), I(1))),
                     (acc, NIL, prim("cons", lam([], None, V(i)), V(acc))),
                     (ff, I(k()), None)],
                    prim("=", V(i), I(lim)), [V(acc)], begin(emit(prim("+", V(i), V(ff))), set_(ff, prim("+", V(ff), I(2)))))
    lst, wl, w = fresh("fl"), fresh("fwalk"), fresh("fw")
    walk = named_let(wl, [(w, V(lst))], if_(prim("null?", V(w)), S("end"),
                                             begin(emit(app(prim("car", V(w)), [])), app(V(wl), [prim("cdr", V(w))]))))
    out.append(("do-fresh-bindings", let([(lst, loop)], emit(walk))))
    # do: parallel steps (swap)
    u, w2, j = fresh("fu"), fresh("fw"), fresh("j")
    out.append(("do-parallel-steps", emit(do_multi([(u, I(k()), V(w2)), (w2, I(k()), V(u)), (j, I(0), prim("+", V(j), I(1)))],
                                                   prim("=", V(j), I(rng.randrange(1, 4))), [prim("list", V(u), V(w2))], VOID))))
    # letrec with mutually recursive procedures
    ev, od, n = fresh("fev"), fresh("fod"), fresh("fn")
    node = letrec([ev, od], [lam([n], None, if_(prim("=", V(n), I(0)), B(True), app(V(od), [prim("-", V(n), I(1))]))),
                             lam([n], None, if_(prim("=", V(n), I(0)), B(False), app(V(ev), [prim("-", V(n), I(1))])))],
                  emit(app(V(ev), [I(rng.randrange(0, 7))])))
    out.append(("letrec-mutual", N(node.core, node.scm.replace("(letrec* ", "(letrec ", 1))))
    # let* with a repeated name; named let whose body shadows the tag
    y = fresh("fy")
    out.append(("let*-repeated-name", letstar([(y, I(k())), (y, prim("+", V(y), I(1))), (y, prim("*", V(y), I(2)))], emit(V(y)))))
    tag, z = fresh("ftag"), fresh("fz")
    out.append(("named-let-shadowed-tag", emit(named_let(tag, [(z, I(k(1, 6)))],
                if_(prim("<", V(z), I(1)), S("bottom"), let([(tag, lam([z], None, prim("list", S("shadow"), V(z))))], app(V(tag), [prim("-", V(z), I(1))])))))))
    # apply with leading arguments
    h = fresh("fh")
    l0 = prim("list", I(k()), I(k()))
    node = N(["apply", V(h).core, prim("cons", I(n1), prim("cons", I(n2), l0)).core], "(apply %s %d %d %s)" % (h, n1, n2, l0.scm))
    out.append(("apply-leading", let([(h, lam([a], r, prim("list", V(a), prim("length", V(r)), V(r))))], emit(node))))
    # and / or deliver the deciding VALUE
    out.append(("and-or-values", begin(emit(or_(B(False), I(n1), I(n2))), emit(and_(I(n1), S("s"), I(n3))), emit(and_(I(n1), B(False), I(n3))),
                                       emit(or_(and_(B(False), I(1)), prim("list", I(n2)))))))
    # a captured rest parameter that is assigned
    mk, rr, get = fresh("fmk"), fresh("frr"), fresh("fget")
    out.append(("rest-assigned-captured",
                let([(mk, lam([], rr, let([(get, lam([], None, V(rr)))], begin(set_(rr, prim("cons", S("x"), V(rr))), V(get)))))],
                    begin(emit(app(app(V(mk), [I(n1), I(n2)]), [])), emit(app(app(V(mk), []), []))))))
    return out
