"""C06 -- continuations, dynamic-wind, parameters and exceptions follow the R7RS model.
   Control scripts (nested winds, captured continuations re-entered from inside and outside their extent,
   raise / raise-continuable, handlers, guard with re-raise, parameterize) run on the Core machine (TLC,
   with the design invariants WindOrder / WindBalance checked at every machine state) and on chibi; TLC
   compares the event lists."""
import random
import vlib, coregen as cg, corecommon as cc
from vlib import Broken


def fixed_scripts():
    """Hand-written corner cases the random generator reaches rarely."""
    from coregen import I, S, V, B, emit, dw, thunk, callcc, lam, app, begin, set_, let, letstar, when, prim, guard, raise_, raisec, weh, paramz, mkparam, and_
    out = []
    # throw out of two nested winds from the inner body (after thunks only emit)
    out.append(begin(emit(callcc(lam(["k"], None,
        dw(thunk(emit(I(101))), thunk(dw(thunk(emit(I(102))), thunk(app(V("k"), [I(5)])), thunk(emit(I(202)))), I(0)), thunk(emit(I(201))))))), emit(S("end"))))
    # generator style re-entry into two nested winds, twice
    out.append(letstar([("kk", B(False)), ("n", I(0))],
        begin(dw(thunk(emit(I(101))), thunk(dw(thunk(emit(I(102))), thunk(emit(callcc(lam(["c"], None, begin(set_("kk", V("c")), I(7))))), I(0)), thunk(emit(I(202)))), I(0)), thunk(emit(I(201)))),
              when(prim("<", V("n"), I(2)), set_("n", prim("+", V("n"), I(1))), app(V("kk"), [prim("+", I(40), V("n"))])),
              emit(S("end")))))
    # the R7RS guard example shape: inner guard does not match, re-raise through a wind to the outer guard
    out.append(emit(guard("e2", [(B(True), begin(emit(V("e2")), I(700)))],
        dw(thunk(emit(I(101))), thunk(guard("e1", [(prim("=", V("e1"), I(-1)), I(0))], dw(thunk(emit(I(102))), thunk(raise_(I(750)), I(0)), thunk(emit(I(202))))), I(0)), thunk(emit(I(201)))))))
    # parameterize left by a continuation and re-entered
    out.append(letstar([("p", mkparam(I(10))), ("kk", B(False)), ("n", I(0))],
        begin(paramz([(V("p"), I(20))], begin(emit(callcc(lam(["c"], None, begin(set_("kk", V("c")), I(1))))), emit(app(V("p"), [])))),
              emit(app(V("p"), [])),
              when(prim("<", V("n"), I(1)), set_("n", I(1)), app(V("kk"), [I(2)])),
              emit(S("end")))))
    # raise-continuable returns to the raise point inside a wind; handler runs in the outer handler context
    out.append(emit(weh(lam(["y"], None, begin(emit(V("y")), I(960))),
        thunk(weh(lam(["x"], None, prim("+", raisec(prim("+", V("x"), I(1))), I(1))),
                  thunk(dw(thunk(emit(I(101))), thunk(prim("+", raisec(I(950)), I(1))), thunk(emit(I(201))))))))))
    # non-continuable raise whose handler returns: secondary error reaches the outer handler / top level
    out.append(begin(emit(guard("e", [(B(True), S("secondary"))], weh(lam(["x"], None, I(1)), thunk(raise_(I(5)), I(0))))), emit(S("end"))))
    # (escapes out of / into a before or after thunk ITSELF are not generated: R7RS 6.10 leaves their effect unspecified)
    return out


def run():
    chk = vlib.Check("C06")
    with vlib.Scratch("c06") as sc:
        build = vlib.build_repo(sc.sub("build"))
        vlib.build_probe(build, sc)
        rng = random.Random(chk.seed)
        progs, kinds = [], {}
        pid = 0
        for i, node in enumerate(fixed_scripts()):
            pid += 1
            progs.append((pid, cg.wrap_toplevel(node)))
            kinds[pid] = "fixed%d" % i
        n = 10000 if chk.thorough else 500
        seen = set()
        while len(progs) < n:
            node = cg.wrap_toplevel(cg.Gen06(rng).program())
            if node.scm in seen or "dynamic-wind" not in node.scm and "call-with-current" not in node.scm.replace("(call-with-current-continuation (lambda (top", ""):
                if rng.random() < 0.8:
                    continue
            seen.add(node.scm)
            pid += 1
            progs.append((pid, node))
            kinds[pid] = "random"
        results = cc.run_all(build, sc, progs, "c06")
        ok, bad, rs = cc.validate(sc, progs, results, "wind", cfg="CoreRunWind.cfg")
        for r in rs:
            chk.cov["states"] += r.distinct
            chk.cov["transitions"] += r.generated
        for kname, txt in bad.items():
            if isinstance(kname, tuple):
                p = chk.save_replay("machine_invariant.txt", txt)
                chk.violations.append(("Core.tla violates its design invariant %s" % kname[1], p, "model:" + kname[1]))
        for pid_, node in progs:
            if pid_ in ok or pid_ not in bad:
                continue
            feats = [f for f in ("dynamic-wind", "guard", "parameterize", "raise-continuable", "with-exception-handler") if f in node.scm]
            key = "c06:%s:%s" % (kinds[pid_] if kinds[pid_] != "random" else "random", "+".join(feats[:3]))
            chk.report(key, "control script %d: event list of the implementation differs from the R7RS wind model (%s)" % (pid_, bad[pid_]),
                       "script_%d.json" % pid_, {"key": key, "scheme": node.scm, "core": node.core, "implementation": results.get(pid_)})
        chk.cov["traces_validated_against_impl"] = len(ok)
        chk.cov["evaluations"] = len(progs)
        chk.cov["distinct_nontrivial"] = len({nd.scm for _, nd in progs})
        reentry = sum(1 for _, nd in progs if "kcount" in nd.scm)
        chk.cov["scripts_with_continuation_reentry"] = reentry
        chk.cov["rule"] = "fixed corner scripts + seeded random control scripts (wind depth <= 4, <= 3 continuations invoked <= 2 times, both raise kinds, guard re-raise, parameterize); distinct texts"
        chk.cov["exhaustive"] = False
        chk.sample({"scheme": progs[2][1].scm[:900], "implementation_output": results.get(progs[2][0])})
        if len(ok) < len(progs) * 0.5 and not chk.violations:
            raise Broken("too few scripts validated")
        chk.assumptions += ["guard is modelled by its R7RS reference expansion (what (scheme base) uses); chibi's own `protect` is not part of the claim",
                            "handlers for errors raised by primitives always escape (R7RS leaves returning from them open)"]
    return chk.finish()


def replay(path):
    print(open(path).read()[:8000])
    return 0
