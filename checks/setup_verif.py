"""setup: verify the tool chain that every check relies on (offline) and byte-compile the helpers."""
import compileall, os, shutil, subprocess, sys
import vlib


def main():
    ok = True
    for tool in ("java", "cmake", "ninja", "cc", "nm", "setarch"):
        if not shutil.which(tool):
            print("missing tool:", tool); ok = False
    for jar in (vlib.JAR, vlib.CM):
        if not os.path.exists(jar):
            print("missing jar:", jar); ok = False
    compileall.compile_dir(os.path.join(vlib.VERIF, "lib"), quiet=1)
    compileall.compile_dir(os.path.join(vlib.VERIF, "checks"), quiet=1)
    # parse every specification once (SANY) so that a syntax error is reported at setup time
    specs = sorted(f for f in os.listdir(vlib.SPEC) if f.endswith(".tla"))
    for f in specs:
        r = subprocess.run(["java", "-cp", vlib.JAR + ":" + vlib.CM, "tla2sany.SANY", f], cwd=vlib.SPEC,
                           stdout=subprocess.PIPE, stderr=subprocess.STDOUT)
        out = r.stdout.decode(errors="replace")
        if r.returncode != 0 or "*** Errors" in out or "Fatal errors" in out:
            print("SANY failed on", f); print(out[-1500:]); ok = False
    os.makedirs(os.path.join(vlib.VERIF, "evidence"), exist_ok=True)
    print("setup", "ok" if ok else "FAILED", "(%d specifications parsed)" % len(specs))
    return 0 if ok else 1
