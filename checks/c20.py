"""C20 -- regular expression matching agrees with the SRFI 115 semantics.
   Regex.tla: denotation of the SRE subset (split-based and derivative-based, model checked against each
   other by RegexMC.tla); cases enumerated (RegexGen.tla) / simulated (RegexSim.tla) by TLC run on the real
   (chibi regexp) through harness/scm/regexdrv.scm; every recorded result is accepted or rejected by TLC
   (RegexTrace.tla).  Python only converts formats (abstract SRE -> SRE datum), shards and reports."""
import json, os, re, sys, time
import vlib
from vlib import Broken

DRV = os.path.join(vlib.VERIF, "harness", "scm", "regexdrv.scm")
NL = 10
CLAUSES = [(1, "malformed-case"), (2, "error-raised"), (4, "matches?-disagrees"), (8, "matches-disagrees"),
           (16, "matches-spans"), (32, "search-disagrees"), (64, "search-spans")]


# --------------------------------------------------------------------------
# abstract SRE (tagged lists, as printed by TLC) -> SRE datum text for chibi.  Pure syntax:
# which of SRFI 115's synonymous spellings is used is drawn from the seed.
# --------------------------------------------------------------------------
NAMES = {"alphabetic": ["alphabetic", "alpha"], "numeric": ["numeric", "num"], "alphanumeric": ["alphanumeric", "alphanum", "alnum"],
         "whitespace": ["whitespace", "white", "space"], "punctuation": ["punctuation", "punct"], "symbol": ["symbol"],
         "lower-case": ["lower-case", "lower"], "upper-case": ["upper-case", "upper"], "hex-digit": ["hex-digit", "xdigit"], "ascii": ["ascii"]}
PCRE = {"numeric": ("\\\\d", "\\\\D"), "whitespace": ("\\\\s", "\\\\S")}     # as written inside a Scheme string literal
UNARY = ("star", "plus", "opt", "sub", "nocase", "ascii", "ccompl", "cnocase", "cascii")
BINARY = ("seq", "or", "cor", "cand", "cdiff")


def ch_lit(c):
    if 48 <= c <= 57 or 65 <= c <= 90 or 97 <= c <= 122:
        return "#\\" + chr(c)
    return "#\\x%x" % c


def str_lit(cs):
    out = ['"']
    for c in cs:
        if 48 <= c <= 57 or 65 <= c <= 90 or 97 <= c <= 122 or c == 32:
            out.append(chr(c))
        else:
            out.append("\\x%x;" % c)
    out.append('"')
    return "".join(out)


def flat(t, tag):
    if t[0] == tag:
        return flat(t[1], tag) + flat(t[2], tag)
    return [t]


def sexp(t, rng, splice=0.4):
    k = t[0]
    pick = lambda *a: a[rng.randrange(len(a))]
    if k == "lit":
        return pick(ch_lit(t[1]), ch_lit(t[1]), str_lit([t[1]]))
    if k == "set":
        cs = sorted(t[1])
        return pick("(%s)" % str_lit(cs), "(char-set %s)" % str_lit(cs), "(or %s)" % " ".join(ch_lit(c) for c in cs))
    if k == "nset":
        cs = sorted(t[1])
        return pick("(~ (%s))", "(complement (%s))", "(- any (%s))", "(difference any (%s))") % str_lit(cs)
    if k == "range":
        return pick("(/ %s %s)" % (ch_lit(t[1]), ch_lit(t[2])), "(char-range %s %s)" % (ch_lit(t[1]), ch_lit(t[2])),
                    "(/ %s)" % str_lit([t[1], t[2]]))
    if k == "any":
        return "any"
    if k == "nonl":
        return "nonl"
    if k == "cls":
        if t[1] in PCRE and rng.random() < 0.2:
            return '(pcre "%s")' % PCRE[t[1]][0]              # expanded by the driver with pcre->sre
        return pick(*NAMES[t[1]])
    if k == "ccompl":
        if t[1][0] == "cls" and t[1][1] in PCRE and rng.random() < 0.2:
            return '(pcre "%s")' % PCRE[t[1][1]][1]
        parts = flat(t[1], "cor") if rng.random() < 0.5 else [t[1]]        # (~ a b) is the complement of the union
        return "(%s %s)" % (pick("~", "complement"), " ".join(sexp(p, rng, splice) for p in parts))
    if k == "cor":
        parts = flat(t, "cor") if rng.random() < 0.7 else [t[1], t[2]]
        if len(parts) == 2 and parts[0] == ["cls", "alphanumeric"] and parts[1] in (["lit", 95], ["set", [95]]) and rng.random() < 0.3:
            return '(pcre "\\\\w")'
        return "(%s %s)" % (pick("or", "or", "|\\||"), " ".join(sexp(p, rng, splice) for p in parts))
    if k == "cand":
        parts = flat(t, "cand") if rng.random() < 0.7 else [t[1], t[2]]
        return "(%s %s)" % (pick("and", "&"), " ".join(sexp(p, rng, splice) for p in parts))
    if k == "cdiff":
        parts = [t[1], t[2]]
        while parts[0][0] == "cdiff" and rng.random() < 0.7:               # (- a b c) is a minus b minus c
            parts = [parts[0][1], parts[0][2]] + parts[1:]
        if parts[-1][0] == "cor" and rng.random() < 0.5:
            parts = parts[:-1] + flat(parts[-1], "cor")
        return "(%s %s)" % (pick("-", "difference"), " ".join(sexp(p, rng, splice) for p in parts))
    if k == "cnocase":
        return "(w/nocase %s)" % sexp(t[1], rng, splice)
    if k == "cascii":
        return "(w/ascii %s)" % sexp(t[1], rng, splice)
    if k == "eps":
        return pick("(:)", "(seq)", '""')
    if k == "empty":
        return "(or)"
    if k in ("bol", "eol"):
        return k
    if k == "seq":
        parts = flat(t, "seq") if rng.random() < 0.7 else [t[1], t[2]]
        if all(p[0] == "lit" for p in parts) and rng.random() < 0.5:
            return str_lit([p[1] for p in parts])
        return "(%s %s)" % (pick(":", "seq"), " ".join(sexp(p, rng, splice) for p in parts))
    if k == "or":
        parts = flat(t, "or") if rng.random() < 0.7 else [t[1], t[2]]
        return "(%s %s)" % (pick("or", "or", "|\\||"), " ".join(sexp(p, rng, splice) for p in parts))
    if k in ("star", "plus", "opt", "sub", "nocase", "ascii", "rep"):
        body = t[-1]
        # (op a b) is (op (: a b)): splice a sequence body sometimes
        if body[0] == "seq" and rng.random() < splice:
            b = " ".join(sexp(p, rng, splice) for p in flat(body, "seq"))
        else:
            b = sexp(body, rng, splice)
        if k == "star":
            return "(%s %s)" % (pick("*", "zero-or-more"), b)
        if k == "plus":
            return "(%s %s)" % (pick("+", "one-or-more"), b)
        if k == "opt":
            return "(%s %s)" % (pick("?", "optional"), b)
        if k == "sub":
            return "(%s %s)" % (pick("$", "submatch"), b)
        if k == "nocase":
            return "(w/nocase %s)" % b
        if k == "ascii":
            return "(w/ascii %s)" % b
        m, n = t[1], t[2]
        if n == -1:
            return "(%s %d %s)" % (pick(">=", "at-least"), m, b)
        if m == n and rng.random() < 0.7:
            return "(%s %d %s)" % (pick("=", "exactly"), m, b)
        return "(%s %d %d %s)" % (pick("**", "repeated"), m, n, b)
    raise Broken("unknown abstract SRE node %r" % (t,))


def tags(t, acc=None):
    """operator signature of an SRE (for coverage counting and structural keys)"""
    acc = set() if acc is None else acc
    k = t[0]
    if k == "rep":
        acc.add("rep00" if (t[1], t[2]) == (0, 0) else "rep")
        tags(t[3], acc)
    elif k in BINARY:
        acc.add(k); tags(t[1], acc); tags(t[2], acc)
    elif k in UNARY:
        acc.add(k); tags(t[1], acc)
    else:
        acc.add(k)
    return acc


def names_in(t, acc=None):
    acc = set() if acc is None else acc
    if t[0] == "cls":
        acc.add(t[1])
    for i in children(t):
        names_in(t[i], acc)
    return acc


def size(t):
    return 1 + sum(size(t[i]) for i in children(t))


# --------------------------------------------------------------------------
# case generation by TLC
# --------------------------------------------------------------------------
def parse_cases(out):
    cases = []
    for m in re.finditer(r'^<<"CASE", "(.*)">>$', out, re.M):
        cases.append(json.loads(m.group(1).replace('\\"', '"').replace("\\\\", "\\")))
    return cases


def write_cfg(sc, name, body):
    p = sc.file(name)
    with open(p, "w") as f:
        f.write(body)
    return p


def setlit(s):
    return "{" + ", ".join(str(c) for c in sorted(s)) + "}"


def gen_exhaustive(sc, label, sigma, maxlen, level, fam):
    cfg = write_cfg(sc, "gen_%s.cfg" % label,
                    "SPECIFICATION Spec\nCONSTANTS Sigma = %s\n MaxLen = %d\n Level = %d\n Fam = \"%s\"\nINVARIANT Dump\nCHECK_DEADLOCK FALSE\n"
                    % (setlit(sigma), maxlen, level, fam))
    r = vlib.run_tlc("RegexGen.tla", cfg, sc.path, workers=1, timeout=1500, heap="4g")
    vlib.require_tlc_ok(r, "RegexGen " + label)
    cases = parse_cases(r.out)
    if not cases or len(cases) > r.distinct or (fam not in ("case", "named") and len(cases) != r.distinct):
        raise Broken("RegexGen %s: %d cases printed, %d states" % (label, len(cases), r.distinct))
    return cases, r


def gen_simulated(sc, label, sigma, num, depth, seed, maxdepth=5, maxlen=12, named=False):
    cfg = write_cfg(sc, "sim_%s.cfg" % label,
                    "SPECIFICATION Spec\nCONSTANTS Sigma = %s\n D = %d\n MaxDepth = %d\n MaxLen = %d\n Named = %s\nINVARIANT Dump\nCHECK_DEADLOCK FALSE\n"
                    % (setlit(sigma), depth, maxdepth, maxlen, "TRUE" if named else "FALSE"))
    r = vlib.run_tlc("RegexSim.tla", cfg, sc.path, workers=1, simulate=num, depth=depth, seed=seed, timeout=1500, heap="4g")
    vlib.require_tlc_ok(r, "RegexSim " + label)
    if r.violated:
        raise Broken("RegexSim %s violated %s" % (label, r.violated))
    cases = parse_cases(r.out)
    if not cases:
        raise Broken("RegexSim %s printed no case" % label)
    return cases


def sample_member(t, rng, sigma, budget):
    """a string that is likely (not necessarily) in L(t): only steers generation towards positive cases"""
    k = t[0]
    if k == "lit":
        return [t[1]]
    if k == "set":
        return [rng.choice(sorted(t[1]))]
    if k == "nset":
        c = [x for x in sigma if x not in t[1]]
        return [rng.choice(c)] if c else []
    if k == "range":
        c = [x for x in sigma if t[1] <= x <= t[2]]
        return [rng.choice(c)] if c else [t[1]]
    if k in ("any", "nonl", "cls", "cor", "cand", "cdiff", "ccompl", "cnocase", "cascii"):
        return [rng.choice(sigma)]
    if k in ("eps", "empty", "bol", "eol"):
        return []
    if k == "seq":
        return sample_member(t[1], rng, sigma, budget) + sample_member(t[2], rng, sigma, budget)
    if k == "or":
        return sample_member(t[1 + rng.randrange(2)], rng, sigma, budget)
    if k in ("sub", "ascii"):
        return sample_member(t[1], rng, sigma, budget)
    if k == "nocase":
        s = sample_member(t[1], rng, sigma, budget)
        return [(c ^ 32 if (65 <= (c & ~32) <= 90 or 913 <= (c & ~32) <= 929 or 1040 <= (c & ~32) <= 1071) and rng.random() < 0.5 else c)
                for c in s]
    if k == "opt":
        return sample_member(t[1], rng, sigma, budget) if rng.random() < 0.6 else []
    if k in ("star", "plus"):
        n = rng.choice([0, 1, 2, 3]) if k == "star" else rng.choice([1, 1, 2, 3])
        out = []
        for _ in range(n):
            out += sample_member(t[1], rng, sigma, budget)
        return out[:budget]
    if k == "rep":
        hi = t[2] if t[2] != -1 else t[1] + 2
        n = rng.randint(t[1], hi)
        out = []
        for _ in range(n):
            out += sample_member(t[3], rng, sigma, budget)
        return out[:budget]
    return []




# --------------------------------------------------------------------------
# running the implementation, building traces, validating with TLC
# --------------------------------------------------------------------------
NORESULT = {"err": 2, "m": 0, "mf": 0, "mm": [], "sf": 0, "ss": []}


def run_impl(build, sc, label, cases, seed, timeout=600):
    """cases: list of (sre, subject) or (sre, subject, v) where v is a printing variant (int) or the SRE datum text
       itself (replays).  One chibi process; returns one Call event per case (same order).  The datum printed for
       an SRE depends only on (seed, variant, SRE).  A case without an answer (crash, abort, timeout) is recorded
       as err=2 (no result)."""
    Random = __import__("random").Random
    groups = {}
    for i, c in enumerate(cases):
        v = c[2] if len(c) > 2 else 0
        groups.setdefault((json.dumps(c[0]), v), []).append(i)
    inp = sc.file("cases_%s.scm" % label)
    texts = {}
    with open(inp, "w") as f:
        for key, idxs in groups.items():
            t = cases[idxs[0]][0]
            texts[key] = key[1] if isinstance(key[1], str) else sexp(t, Random("%d:%d:%s" % (seed, key[1], key[0])), 1.0 if key[1] == 1 else 0.4)   # variant 1: always (op a b)
            f.write("(%s" % texts[key])
            for i in idxs:
                f.write(" (%d . %s)" % (i, str_lit(cases[i][1])))
            f.write(")\n")
    try:
        p = build.run([DRV, inp], timeout=timeout, env=getattr(build, "c20env", None))
        out, rc, err = p.stdout, p.returncode, p.stderr
    except __import__("subprocess").TimeoutExpired as ex:
        out, rc, err = ex.stdout or b"", -9, b"timeout"
    res = {}
    for line in out.decode(errors="replace").splitlines():
        line = line.strip()
        if line.startswith("{") and line.endswith("}"):
            try:
                o = json.loads(line)
                res[o["id"]] = o
            except ValueError:
                pass
    if not res:
        raise Broken("regexdrv produced nothing on %s: rc=%s %s" % (label, rc, err.decode(errors="replace")[-1500:]))
    evs = []
    for i, c in enumerate(cases):
        o = res.get(i, NORESULT)
        ev = {"e": "Call", "id": i, "sre": c[0], "s": c[1]}
        ev.update({k: o[k] for k in ("err", "m", "mf", "mm", "sf", "ss")})
        ev["datum"] = texts[(json.dumps(c[0]), c[2] if len(c) > 2 else 0)]   # not read by the spec: the SRE as chibi saw it
        evs.append(ev)
    return evs


def validate(sc, label, evs, timeout=1500):
    """TLC decides.  evs carry ids unique within the list.  Returns {id: [failed clauses]}, TLCResult."""
    tr = sc.file("trace_%s.ndjson" % label)
    vlib.write_ndjson(tr, evs + [{"e": "End"}])
    r = vlib.run_tlc("RegexTrace.tla", "RegexTrace.cfg", sc.path, env={"TRACE": tr}, workers=1, timeout=timeout, heap="3g")
    if r.error and "Postcondition" not in r.error and "TRACE_REJECTED_AT" not in r.out:
        raise Broken("RegexTrace failed on %s: %s" % (label, r.error[:2000]))
    rej = {}
    for m in re.finditer(r'<<"REJECT",\s*(\d+),\s*(\d+)>>', r.out):
        rej[int(m.group(1))] = [c for b, c in CLAUSES if int(m.group(2)) & b]
    m = re.search(r'"TRACE_REJECTED_AT", (\d+), (\d+)', r.out)
    n = len(evs) + 1
    if m:
        if not (int(m.group(1)) == n and rej):      # every Call was consumed and judged, only End was refused
            raise Broken("RegexTrace stopped at %s of %d on %s without a per-call verdict:\n%s" % (m.group(1), n, label, r.out[-1500:]))
    elif not r.ok or r.distinct != n + 1:
        raise Broken("RegexTrace: unexpected TLC outcome on %s: %s\n%s" % (label, r.summary(), r.out[-1500:]))
    elif rej:
        raise Broken("RegexTrace accepted a trace with rejected calls (%s)" % label)
    if any("malformed-case" in c for c in rej.values()):
        raise Broken("generator emitted a case outside the domain (%s): %s" % (label, [evs_by_id(evs, i) for i in list(rej)[:3]]))
    return rej, r


def evs_by_id(evs, i):
    for e in evs:
        if e["id"] == i:
            return e


def execute(build, sc, shards, jobs_impl=12, jobs_tlc=8, phase=None):
    """shards: list of (label, cases, seed); each shard is answered by one chibi process in the given order.
       Runs them, validates every recorded result with TLC.  Events get global ids and remember shard / position."""
    t0 = time.time()
    ran = vlib.parallel(lambda sh: run_impl(build, sc, sh[0], sh[1], sh[2]), shards, jobs=jobs_impl)
    evs = []
    for k, part in enumerate(ran):
        for pos, e in enumerate(part):
            e["id"], e["shard"], e["pos"] = len(evs), k, pos
            evs.append(e)
    if phase is not None:
        phase["chibi"] = round(time.time() - t0, 1)
    t0 = time.time()
    vshards = [(k, evs[i:i + 10000]) for k, i in enumerate(range(0, len(evs), 10000))]
    rej = {}
    for part in vlib.parallel(lambda sh: validate(sc, "all_v%d" % sh[0], sh[1])[0], vshards, jobs=jobs_tlc):
        rej.update(part)
    if phase is not None:
        phase["tlc-validation"] = round(time.time() - t0, 1)
    return evs, rej


# --------------------------------------------------------------------------
# order of cases inside one interpreter process: sessions around the named classes
# --------------------------------------------------------------------------
def build_sessions(cases, seed):
    """cases: TLC-enumerated (sre, subject) pairs of RegexMC level 5 (a named class alone; every combination form with
       the class as first / middle / last member), subjects = "" and every single probe character.
       One session (= one chibi process) per class n:  all classes alone;  then, in seeded order, each combination
       of n followed by n alone again;  finally all classes alone.  Every answer is judged on its own by TLC, so a
       class whose meaning changed inside the process is rejected at the first later query."""
    Random = __import__("random").Random
    by_sre = {}
    for t, s in cases:
        by_sre.setdefault(json.dumps(t), []).append((t, s))
    alone = {json.loads(k)[1]: v for k, v in by_sre.items() if json.loads(k)[0] == "cls"}
    sessions = []
    for n in sorted(alone):
        combos = sorted(k for k in by_sre if json.loads(k)[0] != "cls" and names_in(json.loads(k)) == {n})
        Random("%d:%s" % (seed, n)).shuffle(combos)
        sess = []
        for m in sorted(alone):
            sess += [(t, s, 100) for t, s in alone[m]]
        for j, k in enumerate(combos):
            sess += [(t, s, j % 2) for t, s in by_sre[k]]               # both spellings of (op a b) bodies occur
            sess += [(t, s, 101 + j) for t, s in alone[n]]
        for m in sorted(alone):
            sess += [(t, s, 999) for t, s in alone[m]]
        sessions.append(("session_%s" % n, sess, seed))
    if len(sessions) < 8:
        raise Broken("order family: only %d sessions built" % len(sessions))
    return sessions


def combination_of(t, name):
    """innermost combination form that has the named class as a direct member, and the member's position"""
    forms = {"cor": "or", "or": "or", "cand": "and", "cdiff": "-", "ccompl": "~", "cnocase": "w/nocase", "nocase": "w/nocase",
             "cascii": "w/ascii", "ascii": "w/ascii"}
    best = None
    if t[0] in forms:
        parts = flat(t, t[0]) if t[0] in ("cor", "or", "cand") else ([t[1], t[2]] if t[0] == "cdiff" else [t[1]])
        if t[0] == "cdiff":
            while parts[0][0] == "cdiff":
                parts = [parts[0][1], parts[0][2]] + parts[1:]
        for i, x in enumerate(parts):
            if x == ["cls", name]:
                pos = "only" if len(parts) == 1 else ("first" if i == 0 else ("last" if i == len(parts) - 1 else "middle"))
                best = "%s-%s" % (forms[t[0]], pos)
    for i in children(t):
        inner = combination_of(t[i], name)
        if inner:
            best = inner
    return best


# --------------------------------------------------------------------------
# rejected results: shrink with TLC in the loop, structural key
# --------------------------------------------------------------------------
ATOMS = ("lit", "set", "nset", "range", "any", "nonl", "cls", "eps", "empty", "bol", "eol")
PRINTINGS = 4
EPS = ["eps"]


def fclass(clauses):
    if "error-raised" in clauses:
        return "error"
    if any(c.endswith("disagrees") for c in clauses):
        return "existence"
    return "spans"


def children(t):
    k = t[0]
    if k in BINARY:
        return [1, 2]
    if k in UNARY:
        return [1]
    if k == "rep":
        return [3]
    return []


def reductions(t):
    """one-step simplifications of an SRE (each strictly smaller, or an atom made plainer)"""
    out = []
    k = t[0]
    for i in children(t):
        out.append(t[i])                           # a node replaced by its operand
    if k in ATOMS:
        if k != "eps":
            out.append(EPS)
        if k == "set" and len(t[1]) > 1:
            out += [["set", [c for c in t[1] if c != d]] for d in t[1]]
        if k == "range":
            out.append(["lit", t[1]])
            if t[2] - t[1] <= 3:
                out.append(["set", list(range(t[1], t[2] + 1))])
            else:
                out += [["range", t[1], t[1] + 1], ["range", t[2] - 1, t[2]], ["set", [t[1], t[2]]]]
        if k in ("set", "nset") and len(t[1]) == 1 and k == "set":
            out.append(["lit", t[1][0]])
    else:
        out.append(EPS)
        if k == "rep" and (t[1], t[2]) not in ((0, 0), (1, 1)):
            out += [["rep", 1, 1, t[3]], ["star", t[3]], ["opt", t[3]]]
        if k == "plus":
            out.append(["star", t[1]])
    for i in children(t):
        for c in reductions(t[i]):
            n = list(t)
            n[i] = c
            out.append(n)
    return out


def shrink_candidates(t, s):
    seen, out = set(), []
    for c in reductions(t):
        out.append((c, s))
    for i in range(len(s)):
        out.append((t, s[:i] + s[i + 1:]))
    for i in children(t):                           # an operand of the root together with a shorter subject
        for j in range(len(s)):
            out.append((t[i], s[:j] + s[j + 1:]))
    res = []
    for c in out:
        key = json.dumps(c)
        if key not in seen:
            seen.add(key)
            res.append(c)
    return res


def weight(case):
    return (size(case[0]) + len(case[1]), json.dumps(case))


def shrink_all(build, sc, items, tagname, rounds=14):
    """greedy minimisation of several rejected cases at once (one chibi run + one TLC run per round).
       items: list of dicts {cur:(sre,subject), cls, last:event}.  A candidate replaces the current case only if
       chibi's recorded result for it is again rejected by TLC with a failure of the same class."""
    active = list(range(len(items)))
    for k in range(rounds):
        batch, owner = [], []
        for i in active:
            for c in sorted(shrink_candidates(*items[i]["cur"]), key=weight)[:120]:
                for variant in range(PRINTINGS):      # the spelling is part of a case: try several per candidate
                    batch.append((c[0], c[1], variant))
                    owner.append(i)
        if not batch:
            break
        evs = run_impl(build, sc, "shr_%s_%d" % (tagname, k), batch, 1)
        rej, _ = validate_soft(sc, "shr_%s_%d" % (tagname, k), evs)
        moved = set()
        for e, i in zip(evs, owner):
            if i not in moved and e["id"] in rej and fclass(rej[e["id"]]) == items[i]["cls"]:
                items[i]["cur"] = (e["sre"], e["s"])
                items[i]["last"] = dict(e, clauses=rej[e["id"]])
                items[i]["confirmed"] = True
                moved.add(i)
        active = [i for i in active if i in moved]
        if not active:
            break
    # every minimal case is confirmed alone in a fresh process (the candidates of a round share one process); a minimal
    # form that does not fail alone is dropped in favour of the original case, which was confirmed alone before
    def confirm(it):
        e = run_impl(build, sc, "confirm_%s_%d" % (tagname, it["k"]), [(it["cur"][0], it["cur"][1], it["last"]["datum"])], 1)
        r, _ = validate_soft(sc, "confirm_%s_%d" % (tagname, it["k"]), e)
        return dict(e[0], clauses=r[0]) if 0 in r and fclass(r[0]) == it["cls"] else None
    for k, it in enumerate(items):
        it["k"] = k
    todo = [it for it in items if it.get("confirmed")]
    for it, res in zip(todo, vlib.parallel(confirm, todo, jobs=8)):
        if res is None:
            it["cur"], it["last"] = (it["orig"]["sre"], it["orig"]["s"]), it["orig"]
        else:
            it["last"] = res
    return items


def validate_soft(sc, label, evs):
    """like validate, but malformed candidates (produced by shrinking) are simply not counted as rejected"""
    tr = sc.file("trace_%s.ndjson" % label)
    vlib.write_ndjson(tr, evs + [{"e": "End"}])
    r = vlib.run_tlc("RegexTrace.tla", "RegexTrace.cfg", sc.path, env={"TRACE": tr}, workers=1, timeout=600, heap="3g")
    if r.error and "Postcondition" not in r.error and "TRACE_REJECTED_AT" not in r.out:
        raise Broken("RegexTrace failed on %s: %s" % (label, r.error[:2000]))
    rej = {}
    for m in re.finditer(r'<<"REJECT",\s*(\d+),\s*(\d+)>>', r.out):
        cl = [c for b, c in CLAUSES if int(m.group(2)) & b]
        if "malformed-case" not in cl:
            rej[int(m.group(1))] = cl
    return rej, r


CANON = {"cor": "or", "cnocase": "nocase", "cascii": "ascii"}      # inside / outside the char-set algebra: the same datum


def canon(t):
    """keys and pattern matching do not distinguish the char-set-level spellings of or / w/nocase / w/ascii"""
    if t[0] in CANON or children(t):
        n = list(t)
        n[0] = CANON.get(t[0], t[0])
        for i in children(t):
            n[i] = canon(t[i])
        return n
    return t


def akind(t):
    """atoms as they appear in keys: the three ways of writing a finite positive class are one kind"""
    return "cls" if t[0] in ("lit", "set", "range") else ("named" if t[0] == "cls" else t[0])


def shape_match(p, t):
    """does the minimised pattern p occur at the root of t?  eps in the pattern = anything; seq is compared
       flattened (pattern operands = an ordered selection of the node's operands), or flattened and unordered"""
    if p[0] == "eps":
        return True
    if not children(p):
        return not children(t) and akind(p) == akind(t)
    if p[0] != t[0]:
        return False
    if p[0] == "rep" and (p[1], p[2]) != (t[1], t[2]):
        return False
    if p[0] == "seq":
        pp, tt = flat(p, "seq"), flat(t, "seq")
        j = 0
        for x in tt:
            if j < len(pp) and shape_match(pp[j], x):
                j += 1
        return j == len(pp)
    if p[0] in ("or", "cor", "cand"):
        pp, tt = flat(p, p[0]), flat(t, p[0])

        def assign(k, used):
            if k == len(pp):
                return True
            return any(i not in used and shape_match(pp[k], tt[i]) and assign(k + 1, used | {i}) for i in range(len(tt)))
        return assign(0, frozenset())
    return all(shape_match(p[i], t[i]) for i in children(p))


def contains(p, t):
    p, t = canon(p), canon(t)
    if p[0] == "cls":                       # a bare named class as pattern stands for that class only
        return p == t or any(contains(p, t[i]) for i in children(t))
    return contains0(p, t)


def contains0(p, t):
    return shape_match(p, t) or any(contains0(p, t[i]) for i in children(t))


def signature(t):
    t = canon(t)
    if t[0] == "cls":
        return "named(%s)" % t[1]           # the class name is kept only when the class alone is the minimal case
    return signature0(t)


def signature0(t):
    k = t[0]
    if k == "seq":
        return "seq(%s,%s)" % (signature0(t[1]), signature0(t[2]))
    if k in ("or", "cor", "cand"):
        return "%s(%s)" % (k, ",".join(sorted(signature0(x) for x in flat(t, k))))
    if k == "cdiff":
        return "cdiff(%s,%s)" % (signature0(t[1]), signature0(t[2]))
    if k in UNARY:
        return "%s(%s)" % (k, signature0(t[1]))
    if k == "rep":
        return "rep%d_%s(%s)" % (t[1], "inf" if t[2] == -1 else t[2], signature0(t[3]))
    return akind(t)


def isolate(build, sc, evs, rej, cap=400):
    """re-run rejected results alone: one fresh chibi process per SRE datum.  Returns the ids whose rejection does
       NOT come back (same failure class) - candidates for a dependence on what the process answered before."""
    groups = {}
    for i in sorted(rej, key=lambda i: weight((evs[i]["sre"], evs[i]["s"]))):
        groups.setdefault(evs[i]["datum"], []).append(i)
    jobs = list(groups.items())[:cap]
    ran = vlib.parallel(lambda j: run_impl(build, sc, "iso_%d" % j[0], [(evs[i]["sre"], evs[i]["s"], j[1][0]) for i in j[1][1]], 1),
                        list(enumerate(jobs)), jobs=12)
    flat_evs, back = [], []
    for (datum, ids), part in zip(jobs, ran):
        for i, e in zip(ids, part):
            e["id"] = len(flat_evs)
            flat_evs.append(e)
            back.append(i)
    r2, _ = validate_soft(sc, "iso", flat_evs)
    loose = [i for k, i in enumerate(back) if not (k in r2 and fclass(r2[k]) == fclass(rej[i]))]
    unexamined = [i for datum, ids in list(groups.items())[cap:] for i in ids]
    return loose, unexamined


def order_dependent(chk, build, sc, evs, rej, shards, ids, max_replays=6):
    """ids: rejected results that are accepted when asked alone.  Their shard (same cases, same order, same spelling)
       is run once more; a rejection that comes back at the same position is a dependence on the order of cases
       inside one process and is reported as such; one that does not come back is flakiness of the machinery."""
    by_shard = {}
    for i in ids:
        by_shard.setdefault(evs[i]["shard"], []).append(i)
    # all sessions, and the few ordinary shards with most such results, are answered again (the others only add to the counts)
    order = sorted(by_shard, key=lambda k: (not shards[k][0].startswith("session_"), -len(by_shard[k]), k))
    replayed = [k for k in order if shards[k][0].startswith("session_")] + [k for k in order if not shards[k][0].startswith("session_")][:max_replays]

    def again_job(k):
        label, cases, seed = shards[k]
        again = run_impl(build, sc, label + "_again", cases, seed)
        return again, validate_soft(sc, label + "_again", again)[0]
    results = dict(zip(replayed, vlib.parallel(again_job, replayed, jobs=8)))
    found = {}
    unreplayed = sum(len(by_shard[k]) for k in by_shard if k not in results)
    for k in sorted(results):
        lst = by_shard[k]
        label, cases, seed = shards[k]
        again, r2 = results[k]
        for i in lst:
            pos = evs[i]["pos"]
            if not (pos in r2 and fclass(r2[pos]) == fclass(rej[i])):
                raise Broken("rejection of %s is reproducible neither alone nor in its original order" % json.dumps(evs[i])[:400])
        onset = {}          # session: class name -> key of the first rejected query of that class alone (later ones: same drift)
        for i in sorted(lst, key=lambda i: evs[i]["pos"]):
            e, cls = evs[i], fclass(rej[i])
            before = None
            if e["sre"][0] == "cls" and label.startswith("session_"):
                if e["sre"][1] in onset:
                    found[onset[e["sre"][1]]]["ids"].append(i)
                    continue
                j = e["pos"] - 1
                while j >= 0 and again[j]["sre"] == e["sre"]:
                    j -= 1
                before = again[j] if j >= 0 else None
                comb = combination_of(before["sre"], e["sre"][1]) if before else None
                key = "%s:named-class:after-combination(%s)" % (cls, comb or "other")
                onset[e["sre"][1]] = key
            else:
                key = "%s:order-dependent:%s" % (cls, "named" if names_in(e["sre"]) else signature(e["sre"]))
            f = found.setdefault(key, {"ids": [], "classes": set(), "example": None})
            f["ids"].append(i)
            f["classes"] |= names_in(e["sre"])
            if f["example"] is None:
                f["example"] = {"result": dict(e, clauses=rej[i]), "answered-just-before": before, "session": label,
                                "prefix": [[c[0], c[1], c[2] if len(c) > 2 else 0] for c in cases[:e["pos"] + 1]], "seed": seed}
    for key, f in sorted(found.items()):
        ex = f["example"]
        e = ex["result"]
        msg = ("%d recorded results rejected by Regex.tla only in the order of their process (accepted when asked alone); classes %s; e.g. sre=%s "
               "subject=%s matches?=%s search=%s%s"
               % (len(f["ids"]), sorted(f["classes"]), e["datum"], json.dumps("".join(map(chr, e["s"]))), e["m"], e["ss"] if e["sf"] else "#f",
                  (" right after " + ex["answered-just-before"]["datum"]) if ex["answered-just-before"] else ""))
        chk.report(key, msg, "%s.json" % re.sub(r"[^A-Za-z0-9_+-]", "_", key),
                   {"key": key, "kind": "session", "count": len(f["ids"]), "classes": sorted(f["classes"]), "example": ex,
                    "how": "./check C20 --replay <this file> answers the recorded prefix of the session in one process on a fresh build; TLC judges the last answer"})
    counts = {k: len(f["ids"]) for k, f in found.items()}
    if unreplayed:
        counts["(accepted alone, shard not answered again)"] = unreplayed
    return counts


def report_rejections(chk, build, sc, evs, rej, shards, per_stage=16, stages=3):
    """group the rejected results by structural key (signature of the minimised case) and report each key once"""
    counts = {}
    loose, unexamined = isolate(build, sc, evs, rej)
    if loose:
        counts.update(order_dependent(chk, build, sc, evs, rej, shards, loose))
    if unexamined:       # too many different rejected SREs to look at each: reported, not analysed
        i = unexamined[0]
        chk.report("%s:unexamined" % fclass(rej[i]), "%d more rejected results were not analysed individually, e.g. %s" % (len(unexamined), json.dumps(evs[i])[:300]),
                   "unexamined.json", {"key": "unexamined", "count": len(unexamined), "examples": [dict(evs[j], clauses=rej[j]) for j in unexamined[:10]]})
        counts["unexamined"] = len(unexamined)
    rej = {i: c for i, c in rej.items() if i not in set(loose) and i not in set(unexamined)}
    found = {}            # key -> [cls, minimal event, [ids]]
    rest = sorted(rej, key=lambda i: weight((evs[i]["sre"], evs[i]["s"])))
    def attribute(rest):
        # what contains an already minimised pattern (or is an already minimised SRE with another subject) joins that key
        left = []
        for i in rest:
            cls = fclass(rej[i])
            for key, f in found.items():
                if f[0] == cls and (contains(f[1]["sre"], evs[i]["sre"]) or json.dumps(evs[i]["sre"]) in f[3]):
                    f[2].append(i)
                    break
            else:
                left.append(i)
        return left

    for stage in range(stages):
        rest = attribute(rest)
        if not rest:
            break
        # minimise the smallest remaining ones, one per coarse signature
        chosen, sigs = [], set()
        for i in rest:
            sg = (fclass(rej[i]), tuple(sorted(tags(evs[i]["sre"]))))
            if sg not in sigs:
                sigs.add(sg)
                chosen.append(i)
            if len(chosen) >= per_stage:
                break
        items = [{"cur": (evs[i]["sre"], evs[i]["s"]), "cls": fclass(rej[i]), "last": dict(evs[i], clauses=rej[i]),
                  "orig": dict(evs[i], clauses=rej[i])} for i in chosen]
        shrink_all(build, sc, items, "s%d" % stage)
        # most general minimal forms first; a minimal form that contains an earlier one joins its key
        for i, it in sorted(zip(chosen, items), key=lambda x: weight((x[1]["last"]["sre"], x[1]["last"]["s"]))):
            key = "%s:%s" % (it["cls"], signature(it["last"]["sre"]))
            for k2, f2 in found.items():
                if f2[0] == it["cls"] and contains(f2[1]["sre"], it["last"]["sre"]):
                    key = k2
                    break
            f = found.setdefault(key, [it["cls"], it["last"], [], set()])
            f[2].append(i)
            f[3].add(json.dumps(evs[i]["sre"]))          # the same SRE with other subjects belongs to the same key
        rest = [i for i in rest if i not in set(chosen)]
    rest = attribute(rest)
    if rest:
        for i in rest:
            key = "%s:unshrunk" % fclass(rej[i])
            found.setdefault(key, [fclass(rej[i]), dict(evs[i], clauses=rej[i]), [], set()])[2].append(i)
    for key, (cls, m, ids, _) in sorted(found.items()):
        ex = [dict(evs[i], clauses=rej[i]) for i in ids[:5]]
        msg = ("%d recorded results rejected by Regex.tla; minimal: sre=%s subject=%s clauses=%s recorded matches?=%s matches=%s search=%s err=%s"
               % (len(ids), m.get("datum"), json.dumps("".join(map(chr, m["s"]))), m.get("clauses"), m["m"], m["mm"] if m["mf"] else "#f",
                  m["ss"] if m["sf"] else "#f", m["err"]))
        chk.report(key, msg, "%s.json" % re.sub(r"[^A-Za-z0-9_+-]", "_", key),
                   {"key": key, "class": cls, "minimal": m, "count": len(ids), "examples": ex,
                    "how": "./check C20 --replay <this file> re-runs the minimal case on a fresh build and lets TLC judge it"})
    counts.update({k: len(v[2]) for k, v in found.items()})
    return counts


def snapshot_lib(build, sc):
    """The Scheme libraries are loaded from the tree at run time: work on a snapshot taken together with the build,
       so that every case of one run (and its re-runs during minimisation) sees the same implementation even if
       the tree is edited meanwhile."""
    import shutil
    snap = sc.sub("libsnap")
    shutil.copytree(os.path.join(vlib.REPO, "lib"), snap, dirs_exist_ok=True)
    build.c20env = {"CHIBI_MODULE_PATH": build.lib + ":" + snap}


# --------------------------------------------------------------------------
# the check
# --------------------------------------------------------------------------
MC_QUICK = ["A", "A1", "B1", "C1", "N1", "N5"]
MC_THOROUGH = ["AT", "A1T", "BT", "CT", "N1", "N5T"]
INVS = ["TwoFormulations", "SearchIsContextMatch", "SearchFromMatch", "GroupsWF", "ReportSound", "ReportRejectsNonMatch"]
ASCII4 = [97, 98, 99, NL]
CASE4 = [97, 65, 98, 66]
NAMED9 = [97, 65, 48, 32, 33, 43, 955, 1635, NL]             # a A 0 space ! + lambda arabic-indic-three newline
PROBE = [97, 102, 103, 65, 70, 71, 48, 57, 95, 32, 9, NL, 33, 45, 43, 36, 233, 201, 955, 923, 1635, 160, 191, 26085, 128512, 127, 8232, 65296,
         8195, 178]                                            # representatives of every class, ASCII and not
UNI = [955, 923, 233, 201, 1076, 1044, 26085, 128512, NL]      # lambda/Lambda, e-acute/E-acute, de/De, a CJK char, an emoji, newline


def mc_job(sc, name):
    r = vlib.run_tlc("RegexMC.tla", "RegexMC_%s.cfg" % name, sc.path, workers=4 if name in ("A", "AT") else 3,
                     timeout=1500, heap="6g")
    vlib.require_tlc_ok(r, "RegexMC_" + name)
    if r.violated:
        raise Broken("Regex.tla fails its own model check %s: invariant %s\n%s" % (name, r.violated, "\n".join(r.trace)[:1500]))
    if r.distinct < 1000:
        raise Broken("RegexMC_%s explored only %d states" % (name, r.distinct))
    return ("mc", name, r)


def add_members(cases, sigma, rng, per_sre=2, maxlen=12):
    """more subjects for TLC-simulated SREs: strings sampled from the SRE, embedded in random context"""
    seen, out = set(), []
    for t, s in cases:
        k = json.dumps([t, s])
        if k in seen:
            continue
        seen.add(k)
        out.append((t, s))
        for _ in range(per_sre):
            m = sample_member(t, rng, sigma, maxlen)
            pre = [rng.choice(sigma) for _ in range(rng.randrange(3))] if rng.random() < 0.5 else []
            post = [rng.choice(sigma) for _ in range(rng.randrange(3))] if rng.random() < 0.5 else []
            s2 = (pre + m + post)[:maxlen]
            k = json.dumps([t, s2])
            if k not in seen:
                seen.add(k)
                out.append((t, s2))
    return out


def corrupt(ev, how):
    e = json.loads(json.dumps(ev))
    n = len(e["s"])
    if how == 0:
        e["m"] = 1 - e["m"]
    elif how == 1:
        e["sf"] = 1 - e["sf"]
        if e["sf"] == 1:
            e["ss"] = [[0, 0]] + e["ss"][1:] if e["ss"] else [[0, 0]] * 1
    elif how == 2 and e["sf"] == 1:
        e["ss"][0] = [e["ss"][0][0], n + 1]
    elif how == 3 and e["sf"] == 1 and len(e["ss"]) > 1:
        e["ss"][-1] = [e["ss"][0][1], e["ss"][0][1] + 1]
    elif how == 4:
        e["err"] = 1
    else:
        e["mf"] = 1 - e["mf"]
        if e["mf"] == 1:
            e["mm"] = [[0, n]]
    return e


def binding_selftest(sc, good):
    """every corrupted copy of an accepted result must be rejected by TLC, the originals accepted"""
    pick = good[:: max(1, len(good) // 120)][:120]
    evs = []
    for k, e in enumerate(pick):
        evs.append(dict(corrupt(e, k % 6), id=len(evs)))
    rej, _ = validate(sc, "selftest_bad", evs)
    if len(rej) != len(evs):
        miss = [e for e in evs if e["id"] not in rej][:3]
        raise Broken("binding self-test: %d of %d corrupted results were accepted, e.g. %s" % (len(evs) - len(rej), len(evs), miss))
    orig = [dict(e, id=k) for k, e in enumerate(pick)]
    rej, _ = validate(sc, "selftest_good", orig)
    if rej:
        raise Broken("binding self-test: accepted results rejected on re-validation")
    return len(evs)


def run():
    chk = vlib.Check("C20")
    T = chk.thorough
    with vlib.Scratch("c20") as sc:
        t0 = time.time()
        phase = chk.cov.setdefault("phase_seconds", {})
        build = vlib.build_repo(sc.sub("build"))
        snapshot_lib(build, sc)
        S = chk.seed
        phase["build"] = round(time.time() - t0, 1); t0 = time.time()
        # ---- model checking of the specification runs in the background while cases are generated and executed
        from concurrent.futures import ThreadPoolExecutor
        mc_pool = ThreadPoolExecutor(max_workers=8)
        mc_futs = [mc_pool.submit(mc_job, sc, n) for n in (MC_THOROUGH if T else MC_QUICK)]
        # ---- phase A: case generation by TLC
        jobs = [("exh", "abc", [97, 98, 99], 5 if T else 4, 1, "full"),
                ("exh", "anchor", [97, NL], 3 if T else 4, 2 if T else 1, "anchor"),
                ("exh", "case", [97, 65, 98], 2 if T else 3, 2 if T else 1, "case"),
                ("exh", "ab2", [97, 98], 3 if T else 1, 2, "full"),
                ("exh", "splice", [97, 65], 2 if T else 1, 4, "case"),
                ("sim", "ascii", ASCII4, 2000 if T else 220, 40, S),
                ("sim", "ascii2", ASCII4, 2000 if T else 150, 25, S + 1),
                ("sim", "case", CASE4, 1500 if T else 150, 35, S + 2),
                ("sim", "unicode", UNI, 800 if T else 70, 35, S + 3),
                # named classes, char-set algebra, w/ascii; the level-5 family is arranged into ordered sessions below
                ("exh", "named", NAMED9, 2 if T else 1, 1, "named"),
                ("exh", "order", PROBE, 1, 5, "named"),
                ("sim", "named", NAMED9, 2500 if T else 300, 35, S + 4)]

        def phase_a(j):
            if j[0] == "exh":
                cases, r = gen_exhaustive(sc, j[1], j[2], j[3], j[4], j[5])
                return ("exh", j[1], cases, r)
            return ("sim", j[1], gen_simulated(sc, j[1], j[2], j[3], j[4], j[5], named=(j[1] == "named")), j[2])
        fam = {}
        for res in vlib.parallel(phase_a, jobs, jobs=len(jobs)):
            if res[0] == "exh":
                fam["exh-" + res[1]] = [tuple(c) + ((1,) if res[1] == "splice" else ()) for c in res[2]]
                chk.cov.setdefault("generator_states", {})["exh-" + res[1]] = res[3].distinct
            else:
                rng = __import__("random").Random(S * 7919 + len(fam))
                fam["sim-" + res[1]] = add_members([tuple(c) for c in res[2]], res[3], rng)
        phase["generation"] = round(time.time() - t0, 1); t0 = time.time()
        chk.cov["mc_invariants"] = INVS + ["Laws (level-1 configurations)"]
        chk.cov["exhaustive"] = True
        # the depth-2 family is large: a seeded sample
        rng = __import__("random").Random(S)
        fam["exh-ab2"] = rng.sample(fam["exh-ab2"], min(len(fam["exh-ab2"]), 40000 if T else 5000))
        # ---- phase B/C: run on the real chibi, TLC judges every recorded result
        sessions = build_sessions(fam.pop("exh-order"), S)
        cases = []
        for name in sorted(fam):
            cases += fam[name]
        __import__("random").Random(S).shuffle(cases)          # seeded order; also balances the shards (simulated cases are the expensive ones)
        shards = [("all_%d" % k, cases[i:i + 2500], S * 1000 + k) for k, i in enumerate(range(0, len(cases), 2500))] + sessions
        evs, rej = execute(build, sc, shards, phase=phase)
        fam["sessions"] = [c for s in sessions for c in s[1]]
        chk.cov["ordered_sessions"] = {"sessions": len(sessions), "cases": len(fam["sessions"]),
                                       "rule": "per named class: all classes alone, then each combination of the class followed by the class alone, then all classes alone; one process per session"}
        t0 = time.time()
        chk.cov["evaluations"] = len(evs)
        chk.cov["traces_validated_against_impl"] = len(evs) - len(rej)
        chk.cov["cases_per_family"] = {n: len(fam[n]) for n in sorted(fam)}
        good = [e for e in evs if e["id"] not in rej]
        # coverage accounting (measured on the recorded results; no verdict)
        pos = [e for e in good if e["sf"] == 1 and e["sre"][0] not in ATOMS]
        chk.cov["distinct_nontrivial"] = len(set(json.dumps([e["sre"], e["s"]]) for e in pos))
        chk.cov["accepted_whole_matches"] = sum(1 for e in good if e["m"] == 1)
        chk.cov["accepted_search_hits"] = sum(1 for e in good if e["sf"] == 1)
        chk.cov["accepted_with_matched_group"] = sum(1 for e in good if e["sf"] == 1 and any(sp[0] >= 0 for sp in e["ss"][1:]))
        chk.cov["accepted_with_unmatched_group"] = sum(1 for e in good if e["sf"] == 1 and any(sp[0] < 0 for sp in e["ss"][1:]))
        chk.cov["distinct_sres"] = len(set(json.dumps(e["sre"]) for e in evs))
        chk.cov["max_depth_subject_len"] = [max(depth(e["sre"]) for e in evs), max(len(e["s"]) for e in evs)]
        ops = {}
        for e in good:
            for tg in tags(e["sre"]):
                ops[tg] = ops.get(tg, 0) + 1
        chk.cov["accepted_cases_per_operator"] = ops
        need = ["lit", "set", "nset", "range", "any", "seq", "or", "star", "plus", "opt", "rep", "sub", "bol", "eol", "nocase", "eps", "empty",
                "cls", "nonl", "cor", "cand", "cdiff", "ccompl", "cnocase", "cascii", "ascii"]
        missing = [t for t in need if ops.get(t, 0) == 0]
        if missing or chk.cov["accepted_with_matched_group"] < 50 or chk.cov["accepted_whole_matches"] < 500 or \
           chk.cov["accepted_with_unmatched_group"] < 10 or chk.cov["max_depth_subject_len"][0] < 4:
            raise Broken("vacuous run: operators never accepted %s, coverage %s" % (missing, {k: v for k, v in chk.cov.items() if k.startswith("accepted")}))
        for e in (pos[:: max(1, len(pos) // 5)])[:5]:
            chk.sample({"sre": e["datum"], "abstract": e["sre"], "subject": "".join(map(chr, e["s"])), "regexp-matches?": e["m"],
                        "regexp-matches": e["mm"] if e["mf"] else False, "regexp-search": e["ss"] if e["sf"] else False})
        chk.cov["binding_selftest_corruptions_rejected"] = binding_selftest(sc, good)
        phase["selftest"] = round(time.time() - t0, 1); t0 = time.time()
        # ---- collect the model checking results
        for f in mc_futs:
            res = f.result()
            chk.add_mc("RegexMC_" + res[1], res[2])
        mc_pool.shutdown()
        phase["waiting-for-mc"] = round(time.time() - t0, 1); t0 = time.time()
        # ---- rejected results
        if rej:
            chk.cov["rejected_results"] = report_rejections(chk, build, sc, evs, rej, shards)
            phase["minimise-rejections"] = round(time.time() - t0, 1)
        chk.cov["rule"] = ("a case = one (SRE, subject) pair: all SREs of depth<=1 over {a,b,c} x all subjects up to length 4 (5 thorough), anchor and case-folding "
                           "families likewise over {a,newline} / {a,A,b}, depth-2 SREs over {a,b} (seeded sample), (seq|or)(unary(seq(atom,atom)),atom) over {a,A} printed as (op a b), "
                           "947 SREs over the named classes / char-set algebra / w/ascii, all enumerated by TLC (RegexGen), one ordered session per named class "
                           "(class alone before and after each combination form, RegexMC level 5), plus "
                           "TLC-simulated SREs up to depth 5 (RegexSim) with subjects up to length 12 over {a,b,c,newline}, {a,A,b,B} and a Unicode alphabet; "
                           "distinct_nontrivial = distinct accepted pairs whose SRE has an operator and for which the implementation reported a search match "
                           "(so that span and submatch clauses were exercised)")
        chk.assumptions += ["case folding is specified for simple one-to-one case pairs only (ASCII, Latin-1, Greek, Cyrillic basic letters); subjects never contain characters of larger case classes",
                            "complement classes inside w/nocase, (** m n) with m > n, and very large classes inside w/nocase (minutes of compile time) are not generated",
                            "the abstract-SRE -> SRE-datum printer of checks/c20.py and the driver's span extraction are trusted (format conversion)",
                            "no preference among ambiguous parses (leftmost-longest, which iteration a group reports) is demanded",
                            "named classes are specified for all of ASCII and 15 non-ASCII representatives (Regex!KnownChars); subjects of SREs with named classes stay inside"]
    return chk.finish()


def depth(t):
    c = children(t)
    return (1 + max(depth(t[i]) for i in c)) if c else 0


def replay(path):
    d = json.load(open(path))
    if d.get("kind") == "session":
        ex = d["example"]
        e = ex["result"]
        print("key      :", d["key"], " classes:", d.get("classes"))
        print("session  :", ex["session"], "- %d cases answered by one process, in order; the last one is the rejected one" % len(ex["prefix"]))
        print("last case: sre=%s subject=%s recorded matches?=%s search=%s clauses=%s" % (e["datum"], json.dumps("".join(map(chr, e["s"]))), e["m"],
                                                                                    e["ss"] if e["sf"] else "#f", e.get("clauses")))
        if ex.get("answered-just-before"):
            print("answered just before:", ex["answered-just-before"]["datum"])
        with vlib.Scratch("c20r") as sc:
            build = vlib.build_repo(sc.sub("build"))
            snapshot_lib(build, sc)
            evs = run_impl(build, sc, "replay", [tuple(c) for c in ex["prefix"]], ex["seed"])
            rej, r = validate_soft(sc, "replay", evs)
            last = evs[-1]
            print("now      : sre=%s matches?=%s search=%s" % (last["datum"], last["m"], last["ss"] if last["sf"] else "#f"))
            alone = run_impl(build, sc, "replay_alone", [(last["sre"], last["s"], last["datum"])], 1)
            ra, _ = validate_soft(sc, "replay_alone", alone)
            print("TLC verdict now, in this order:", "REJECTED " + str(rej[last["id"]]) if last["id"] in rej else "accepted",
                  "| asked alone:", "REJECTED" if 0 in ra else "accepted")
            return 1 if last["id"] in rej else 0
    m = d["minimal"]
    print("key      :", d["key"])
    print("sre      :", m.get("datum"), "  abstract:", json.dumps(m["sre"]))
    print("subject  :", json.dumps("".join(map(chr, m["s"]))))
    print("recorded : err=%s regexp-matches?=%s regexp-matches=%s regexp-search=%s" % (m["err"], m["m"], m["mm"] if m["mf"] else "#f", m["ss"] if m["sf"] else "#f"))
    print("rejected clauses at the time:", m.get("clauses"))
    with vlib.Scratch("c20r") as sc:
        build = vlib.build_repo(sc.sub("build"))
        snapshot_lib(build, sc)
        evs = run_impl(build, sc, "replay", [(m["sre"], m["s"], m["datum"])], 1)
        rej, r = validate_soft(sc, "replay", evs)
        e = evs[0]
        print("now      : err=%s regexp-matches?=%s regexp-matches=%s regexp-search=%s  (datum %s)"
              % (e["err"], e["m"], e["mm"] if e["mf"] else "#f", e["ss"] if e["sf"] else "#f", e["datum"]))
        print("TLC verdict now:", "REJECTED " + str(rej[0]) if 0 in rej else "accepted")
        return 1 if 0 in rej else 0
