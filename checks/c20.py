"""C20 -- regular expression matching agrees with the SRFI 115 semantics.
   Regex.tla: denotation of the SRE subset (split-based and derivative-based, model checked against each
   other by RegexMC.tla); cases enumerated (RegexGen.tla) / simulated (RegexSim.tla) by TLC run on the real
   (chibi regexp) through harness/scm/regexdrv.scm; every recorded result is accepted or rejected by TLC
   (RegexTrace.tla).  Python only converts formats (abstract SRE -> SRE datum), shards and reports."""
import json, os, re, sys, time
import vlib
from vlib import Broken

DRV = os.path.join(vlib.VERIF, "harness", "scm", "regexdrv.scm")
NL = 10
CLAUSES = [(1, "malformed-case"), (2, "error-raised"), (4, "matches?-disagrees"), (8, "matches-disagrees"),
           (16, "matches-spans"), (32, "search-disagrees"), (64, "search-spans")]


# --------------------------------------------------------------------------
# abstract SRE (tagged lists, as printed by TLC) -> SRE datum text for chibi.  Pure syntax:
# which of SRFI 115's synonymous spellings is used is drawn from the seed.
# --------------------------------------------------------------------------
def ch_lit(c):
    if 48 <= c <= 57 or 65 <= c <= 90 or 97 <= c <= 122:
        return "#\\" + chr(c)
    return "#\\x%x" % c


def str_lit(cs):
    out = ['"']
    for c in cs:
        if 48 <= c <= 57 or 65 <= c <= 90 or 97 <= c <= 122 or c == 32:
            out.append(chr(c))
        else:
            out.append("\\x%x;" % c)
    out.append('"')
    return "".join(out)


def flat(t, tag):
    if t[0] == tag:
        return flat(t[1], tag) + flat(t[2], tag)
    return [t]


def sexp(t, rng):
    k = t[0]
    pick = lambda *a: a[rng.randrange(len(a))]
    if k == "lit":
        return pick(ch_lit(t[1]), ch_lit(t[1]), str_lit([t[1]]))
    if k == "set":
        cs = sorted(t[1])
        return pick("(%s)" % str_lit(cs), "(char-set %s)" % str_lit(cs), "(or %s)" % " ".join(ch_lit(c) for c in cs))
    if k == "nset":
        cs = sorted(t[1])
        return pick("(~ (%s))", "(complement (%s))", "(- any (%s))", "(difference any (%s))") % str_lit(cs)
    if k == "range":
        return pick("(/ %s %s)" % (ch_lit(t[1]), ch_lit(t[2])), "(char-range %s %s)" % (ch_lit(t[1]), ch_lit(t[2])),
                    "(/ %s)" % str_lit([t[1], t[2]]))
    if k == "any":
        return "any"
    if k == "eps":
        return pick("(:)", "(seq)", '""')
    if k == "empty":
        return "(or)"
    if k in ("bol", "eol"):
        return k
    if k == "seq":
        parts = flat(t, "seq") if rng.random() < 0.7 else [t[1], t[2]]
        if all(p[0] == "lit" for p in parts) and rng.random() < 0.5:
            return str_lit([p[1] for p in parts])
        return "(%s %s)" % (pick(":", "seq"), " ".join(sexp(p, rng) for p in parts))
    if k == "or":
        parts = flat(t, "or") if rng.random() < 0.7 else [t[1], t[2]]
        return "(%s %s)" % (pick("or", "or", "|\\||"), " ".join(sexp(p, rng) for p in parts))
    if k in ("star", "plus", "opt", "sub", "nocase", "rep"):
        body = t[-1]
        # (op a b) is (op (: a b)): splice a sequence body sometimes
        if body[0] == "seq" and rng.random() < 0.4:
            b = " ".join(sexp(p, rng) for p in flat(body, "seq"))
        else:
            b = sexp(body, rng)
        if k == "star":
            return "(%s %s)" % (pick("*", "zero-or-more"), b)
        if k == "plus":
            return "(%s %s)" % (pick("+", "one-or-more"), b)
        if k == "opt":
            return "(%s %s)" % (pick("?", "optional"), b)
        if k == "sub":
            return "(%s %s)" % (pick("$", "submatch"), b)
        if k == "nocase":
            return "(w/nocase %s)" % b
        m, n = t[1], t[2]
        if n == -1:
            return "(%s %d %s)" % (pick(">=", "at-least"), m, b)
        if m == n and rng.random() < 0.7:
            return "(%s %d %s)" % (pick("=", "exactly"), m, b)
        return "(%s %d %d %s)" % (pick("**", "repeated"), m, n, b)
    raise Broken("unknown abstract SRE node %r" % (t,))


def tags(t, acc=None):
    """operator signature of an SRE (for coverage counting and structural keys)"""
    acc = set() if acc is None else acc
    k = t[0]
    if k == "rep":
        acc.add("rep00" if (t[1], t[2]) == (0, 0) else "rep")
        tags(t[3], acc)
    elif k in ("seq", "or"):
        acc.add(k); tags(t[1], acc); tags(t[2], acc)
    elif k in ("star", "plus", "opt", "sub", "nocase"):
        acc.add(k); tags(t[1], acc)
    else:
        acc.add(k)
    return acc


def size(t):
    k = t[0]
    if k == "rep":
        return 1 + size(t[3])
    if k in ("seq", "or"):
        return 1 + size(t[1]) + size(t[2])
    if k in ("star", "plus", "opt", "sub", "nocase"):
        return 1 + size(t[1])
    return 1


# --------------------------------------------------------------------------
# case generation by TLC
# --------------------------------------------------------------------------
def parse_cases(out):
    cases = []
    for m in re.finditer(r'^<<"CASE", "(.*)">>$', out, re.M):
        cases.append(json.loads(m.group(1).replace('\\"', '"').replace("\\\\", "\\")))
    return cases


def write_cfg(sc, name, body):
    p = sc.file(name)
    with open(p, "w") as f:
        f.write(body)
    return p


def setlit(s):
    return "{" + ", ".join(str(c) for c in sorted(s)) + "}"


def gen_exhaustive(sc, label, sigma, maxlen, level, fam):
    cfg = write_cfg(sc, "gen_%s.cfg" % label,
                    "SPECIFICATION Spec\nCONSTANTS Sigma = %s\n MaxLen = %d\n Level = %d\n Fam = \"%s\"\nINVARIANT Dump\nCHECK_DEADLOCK FALSE\n"
                    % (setlit(sigma), maxlen, level, fam))
    r = vlib.run_tlc("RegexGen.tla", cfg, sc.path, workers=1, timeout=600, heap="4g")
    vlib.require_tlc_ok(r, "RegexGen " + label)
    cases = parse_cases(r.out)
    if len(cases) != r.distinct or not cases:
        raise Broken("RegexGen %s: %d cases printed, %d states" % (label, len(cases), r.distinct))
    return cases, r


def gen_simulated(sc, label, sigma, num, depth, seed, maxdepth=5, maxlen=12):
    cfg = write_cfg(sc, "sim_%s.cfg" % label,
                    "SPECIFICATION Spec\nCONSTANTS Sigma = %s\n D = %d\n MaxDepth = %d\n MaxLen = %d\nINVARIANT Dump\nCHECK_DEADLOCK FALSE\n"
                    % (setlit(sigma), depth, maxdepth, maxlen))
    r = vlib.run_tlc("RegexSim.tla", cfg, sc.path, workers=1, simulate=num, depth=depth, seed=seed, timeout=600, heap="4g")
    vlib.require_tlc_ok(r, "RegexSim " + label)
    if r.violated:
        raise Broken("RegexSim %s violated %s" % (label, r.violated))
    cases = parse_cases(r.out)
    if not cases:
        raise Broken("RegexSim %s printed no case" % label)
    return cases


def sample_member(t, rng, sigma, budget):
    """a string that is likely (not necessarily) in L(t): only steers generation towards positive cases"""
    k = t[0]
    if k == "lit":
        return [t[1]]
    if k == "set":
        return [rng.choice(sorted(t[1]))]
    if k == "nset":
        c = [x for x in sigma if x not in t[1]]
        return [rng.choice(c)] if c else []
    if k == "range":
        c = [x for x in sigma if t[1] <= x <= t[2]]
        return [rng.choice(c)] if c else [t[1]]
    if k == "any":
        return [rng.choice(sigma)]
    if k in ("eps", "empty", "bol", "eol"):
        return []
    if k == "seq":
        return sample_member(t[1], rng, sigma, budget) + sample_member(t[2], rng, sigma, budget)
    if k == "or":
        return sample_member(t[1 + rng.randrange(2)], rng, sigma, budget)
    if k in ("sub",):
        return sample_member(t[1], rng, sigma, budget)
    if k == "nocase":
        s = sample_member(t[1], rng, sigma, budget)
        return [(c ^ 32 if (65 <= (c & ~32) <= 90 or 913 <= (c & ~32) <= 929 or 1040 <= (c & ~32) <= 1071) and rng.random() < 0.5 else c)
                for c in s]
    if k == "opt":
        return sample_member(t[1], rng, sigma, budget) if rng.random() < 0.6 else []
    if k in ("star", "plus"):
        n = rng.choice([0, 1, 2, 3]) if k == "star" else rng.choice([1, 1, 2, 3])
        out = []
        for _ in range(n):
            out += sample_member(t[1], rng, sigma, budget)
        return out[:budget]
    if k == "rep":
        hi = t[2] if t[2] != -1 else t[1] + 2
        n = rng.randint(t[1], hi)
        out = []
        for _ in range(n):
            out += sample_member(t[3], rng, sigma, budget)
        return out[:budget]
    return []


# --------------------------------------------------------------------------
# running the implementation, building traces, validating with TLC
# --------------------------------------------------------------------------
def run_impl(build, sc, label, cases, rng):
    """cases: list of (sre, subject).  Returns list of trace events (Call), one per case, in order."""
    groups = {}
    for i, (t, s) in enumerate(cases):
        groups.setdefault(json.dumps(t), []).append(i)
    inp = sc.file("cases_%s.scm" % label)
    with open(inp, "w") as f:
        for key, idxs in groups.items():
            t = cases[idxs[0]][0]
            f.write("(%s" % sexp(t, rng))
            for i in idxs:
                f.write(" (%d . %s)" % (i, str_lit(cases[i][1])))
            f.write(")\n")
    p = build.run([DRV, inp], timeout=900)
    res = {}
    for line in p.stdout.decode(errors="replace").splitlines():
        line = line.strip()
        if line.startswith("{"):
            try:
                o = json.loads(line)
                res[o["id"]] = o
            except ValueError:
                pass
    if p.returncode != 0 and not res:
        raise Broken("regexdrv failed on %s: rc=%s %s" % (label, p.returncode, p.stderr.decode(errors="replace")[-1500:]))
    evs = []
    for i, (t, s) in enumerate(cases):
        o = res.get(i)
        if o is None:      # crash / abort before this case was answered: recorded as an error outcome of the call
            o = {"id": i, "err": 1, "m": 0, "mf": 0, "mm": [], "sf": 0, "ss": [], "lost": 1}
        ev = {"e": "Call", "id": i, "sre": t, "s": s}
        ev.update({k: o[k] for k in ("err", "m", "mf", "mm", "sf", "ss")})
        evs.append(ev)
    return evs, inp, p.returncode


def validate(sc, label, evs):
    """TLC decides.  Returns (set of rejected ids -> clauses, TLCResult)."""
    tr = sc.file("trace_%s.ndjson" % label)
    vlib.write_ndjson(tr, evs + [{"e": "End"}])
    r = vlib.run_tlc("RegexTrace.tla", "RegexTrace.cfg", sc.path, env={"TRACE": tr}, workers=1, timeout=1500, heap="3g")
    if r.error and "Postcondition" not in r.error and "TRACE_REJECTED_AT" not in r.out:
        raise Broken("RegexTrace failed on %s: %s" % (label, r.error[:2000]))
    rej = {}
    for m in re.finditer(r'<<"REJECT",\s*(\d+),\s*(\d+)>>', r.out):
        rej[int(m.group(1))] = [c for b, c in CLAUSES if int(m.group(2)) & b]
    m = re.search(r'"TRACE_REJECTED_AT", (\d+), (\d+)', r.out)
    n = len(evs) + 1
    if m:
        d = int(m.group(1))
        if not (d - 1 == n - 1 and rej):      # every Call was consumed, only End was refused
            raise Broken("RegexTrace stopped at %d of %d on %s without a per-call verdict:\n%s" % (d, n, label, r.out[-1500:]))
    elif not r.ok:
        raise Broken("RegexTrace: unexpected TLC outcome on %s: %s\n%s" % (label, r.summary(), r.out[-1500:]))
    elif rej:
        raise Broken("RegexTrace accepted a trace with rejected calls (%s)" % label)
    return rej, r
