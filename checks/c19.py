"""C19 -- codec libraries invert each other and are total on hostile input.

   spec/Codec.tla states what the formats mean (base64 by index arithmetic, abstract decoders +
   Allowed predicates for quoted-printable / URI escaping / JSON / CSV, UTF-8/16/32, integer byte
   layouts on digit sequences); spec/CodecMC.tla checks the specification against itself with TLC;
   harness/scm/codec.scm runs generated cases on the real libraries and records results;
   spec/CodecTrace.tla (TLC) accepts or rejects every recorded case.  Python only generates inputs,
   runs processes, splits traces and turns TLC's REJECT lines into report keys."""
import base64, json, os, re, subprocess, sys, time
import vlib
from vlib import Broken

TIMES = {}
DRIVER = os.path.join(vlib.VERIF, "harness", "scm", "codec.scm")
PROC_TIMEOUT = 300


# ----------------------------------------------------------------------------------------------
# s-expressions for the case files
# ----------------------------------------------------------------------------------------------
class Sym(str):
    pass


class C(list):
    """a code-point string (travels as "c:<6 hex digits each>")"""


class T(list):
    """a JSON string / member-name token [tag, cp...] (travels as "<tag>c:<hex6...>")"""


def sx(v):
    if isinstance(v, Sym):
        return str(v)
    if isinstance(v, (bytes, bytearray)):
        return '"h:' + bytes(v).hex() + '"'
    if isinstance(v, C):
        return '"c:' + "".join("%06x" % c for c in v) + '"'
    if isinstance(v, T):
        return '"%dc:' % v[0] + "".join("%06x" % c for c in v[1:]) + '"'
    if isinstance(v, bool):
        raise ValueError(v)
    if isinstance(v, int):
        return str(v)
    if isinstance(v, str):
        assert re.match(r"^[A-Za-z][A-Za-z0-9:/_.+<>=%-]*$", v) and not re.match(r"^\d*[hc]:", v), v
        return '"' + v + '"'
    if isinstance(v, (list, tuple)):
        return "(" + " ".join(sx(x) for x in v) + ")"
    raise ValueError(v)


def expand(line):
    """driver output -> JSON for TLC: "#h:<hex>" / "#<tag>c:<hex6>" become arrays of integers (format conversion only)"""
    def one(m):
        pre, kind, hx = m.group(1), m.group(2), m.group(3)
        if kind == "h":
            vals = list(bytes.fromhex(hx))
        else:
            vals = [int(hx[i:i + 6], 16) for i in range(0, len(hx), 6)]
        if pre:
            vals = [int(pre)] + vals
        return "[" + ",".join(map(str, vals)) + "]"
    return re.sub(r'"#(\d*)([hc]):([0-9a-f]*)"', one, line)


class Case:
    __slots__ = ("id", "kind", "cls", "args", "feat", "group")

    def __init__(self, kind, cls, args, feat=(), group="main"):
        self.id = 0
        self.kind = kind
        self.cls = cls
        if kind == "json":
            args = [[T(t) if t[0] in (4, 9) else t for t in args[0]], args[1]]
        elif kind == "csv":
            args = [[[bytes(f) for f in r] for r in args[0]], args[1]]
        self.args = args
        self.feat = tuple(feat)      # features present (used only to label rejected mixed cases)
        self.group = group           # cases of one group share processes

    def line(self):
        return sx([self.id, Sym(self.kind), self.cls] + list(self.args))


# ----------------------------------------------------------------------------------------------
# generators (inputs only; what the right answer is, is the specification's business)
# ----------------------------------------------------------------------------------------------
def rbytes(rng, n):
    return bytes(rng.getrandbits(8) for _ in range(n))


def big_sizes(rng, thorough):
    """seeded sample of lengths 65..4096 hitting every residue mod 12 (hence mod 3 and mod 4)"""
    out = set([2047, 2048, 2049, 2050, 4095, 4096, 2221, 2222, 2223, 2224])
    reps = 8 if thorough else 1
    for r in range(12):
        for _ in range(reps):
            n = rng.randrange(65, 4097)
            n -= (n - r) % 12
            if n < 65:
                n += 12
            out.add(n)
    return sorted(out)


def gen_bytestring_cases(rng, small, thorough):
    cases = []
    # the enumeration TLC produced from the specification (all strings of length <= 3 over CodecMC!Alpha)
    for x in small:
        b = bytes(x)
        cases.append(Case("b64", "small", [b, base64.b64encode(b)]))
        cases.append(Case("qp", "short", [b]))
        cases.append(Case("uri", "latin1", [C(b), 0]))
        cases.append(Case("uri", "plus", [C(b), 1]))
    # every length 0..64, every byte value
    inputs = [rbytes(rng, n) for n in range(0, 257 if thorough else 65)]
    inputs += [bytes(range(256))] + [bytes(range(16 * i, 16 * i + 16)) for i in range(16)]
    inputs += [bytes([b]) * n for b in (0, 61, 97, 255, 32, 37) for n in (1, 2, 3, 24, 25, 26)]
    for b in inputs:
        cases.append(Case("b64", "len", [b, base64.b64encode(b)]))
        cases.append(Case("qp", "short" if len(b) <= 25 else "long", [b]))
        cases.append(Case("uri", "latin1", [C(b), 0]))
        cases.append(Case("uri", "plus", [C(b), 1]))
    # printable runs around the quoted-printable line limit
    for n in list(range(70, 82)) + [150, 151, 152, 153, 228]:
        cases.append(Case("qp", "long", [b"a" * n]))
        cases.append(Case("qp", "long", [(b"ab=" * n)[:n]]))
        cases.append(Case("qp", "long", [bytes((97 + (i % 26)) if i % 7 else 32 for i in range(n))]))
    for n in big_sizes(rng, thorough):
        b = rbytes(rng, n)
        cases.append(Case("b64", "big", [b, base64.b64encode(b)]))
        cases.append(Case("qp", "long", [b]))
        cases.append(Case("uri", "latin1", [C(b), rng.randrange(2)]))
        t = bytes(rng.choice(b"abcdefghijklmnopqrstuvwxyz0123456789 .,;=?_\r\n\t") for _ in range(n))
        cases.append(Case("qp", "long", [t]))
    # URI escaping of characters beyond Latin-1
    for cps in ([955], [97, 955, 98], [8364], [128512], [0x100], [0xFFFF], [0x10FFFF], [233, 955, 32, 47]):
        cases.append(Case("uri", "cp>255", [C(cps), 0]))
    return cases


# ---- streaming / buffered code paths: lengths around the multiples of their fixed internal buffers
def buffer_sizes():
    """the sizes of the fixed internal buffers, read from the sources of the tree under test (the values of the
    pinned tree, also listed as Codec!StreamBuffers, are the fallback)"""
    import math
    res = {"b64decode": {2964}, "b64encode": {3072, 2048}, "qpline": {76}, "jsonstring": {128}, "derived": []}

    def src(rel):
        try:
            return open(os.path.join(vlib.REPO, rel)).read()
        except OSError:
            return ""
    b = src("lib/chibi/base64.scm")
    names = {}
    m = re.search(r"\(define decode-src-length\s*\(lcm (\d+) (\d+)\)\)", b)
    if m:
        names["decode-src-length"] = math.lcm(int(m.group(1)), int(m.group(2)))
    m = re.search(r"\(define encode-src-length\s*\(\* (\d+) (\d+)\)\)", b)
    if m:
        names["encode-src-length"] = int(m.group(1)) * int(m.group(2))
    for m in re.finditer(r"\(read-bytevector! src in (\S+) ([a-z0-9-]+)\)", b):
        v = names.get(m.group(2)) or (int(m.group(2)) if m.group(2).isdigit() else None)
        if v:
            res["b64decode" if m.group(1) == "offset" else "b64encode"].add(v)
            res["derived"].append("base64.scm read-bytevector! %s = %d" % (m.group(2), v))
    m = re.search(r"#define INIT_STRING_BUFFER_SIZE (\d+)", src("lib/chibi/json.c"))
    if m:
        res["jsonstring"].add(int(m.group(1)))
        res["derived"].append("json.c INIT_STRING_BUFFER_SIZE = %s" % m.group(1))
    m = re.search(r"\(define \*default-max-col\* (\d+)\)", src("lib/chibi/quoted-printable.scm"))
    if m:
        res["qpline"].add(int(m.group(1)))
        res["derived"].append("quoted-printable.scm *default-max-col* = %s" % m.group(1))
    return res


B64_SKIP = b" \t!.:"


def b64_text(rng, L, wrap, eol, padded, shift, inter, r3):
    """a base64 text of exactly L characters: data of length = r3 mod 3, wrapped at `wrap` columns with `eol`,
    `shift` ignorable characters in front (moves the 4-character group phase at every later buffer boundary),
    optionally ignorable characters sprinkled in, padding kept or stripped.  -> (data, text) or None"""
    def render(n):
        body = base64.b64encode(bytes(n))          # length only
        if not padded:
            body = body.rstrip(b"=")
        k = len(body)
        nl = ((k - 1) // wrap) if (wrap and k) else 0
        return shift + k + nl * len(eol)
    n = (L * 3) // 4 + 3
    n -= (n - r3) % 3
    while n >= 0 and render(n) > L - (3 if inter else 0):
        n -= 3
    if n < 0:
        return None
    data = rbytes(rng, n)
    body = base64.b64encode(data)
    if not padded:
        body = body.rstrip(b"=")
    lines = [body[i:i + wrap] for i in range(0, len(body), wrap)] if wrap else [body]
    text = bytearray(b" " * shift + eol.join(lines))
    fill = L - len(text)
    npad = len(body) - len(body.rstrip(b"="))
    for _ in range(fill):                           # ignorable characters up to the exact length, not inside the padding
        pos = rng.randrange(0, len(text) - npad + 1)
        text.insert(pos, rng.choice(B64_SKIP) if inter else 10)
    return data, bytes(text)


def gen_b64_text_cases(rng, small, bufs, thorough):
    out = []
    stats = {"targets": 0}
    # small texts: every small byte string, unpadded / one character per line / CRLF wrapped
    for x in small[::1 if thorough else 3]:
        b = bytes(x)
        e = base64.b64encode(b)
        out.append(Case("b64t", "small:nopad", [b, e.rstrip(b"=")]))
        out.append(Case("b64t", "small:pad", [b, b"\n".join(e[i:i + 1] for i in range(len(e))) + b"\r\n"]))
    for n in range(0, 65):
        b = rbytes(rng, n)
        e = base64.b64encode(b)
        out.append(Case("b64t", "small:pad", [b, b"\r\n".join(e[i:i + 4] for i in range(0, len(e), 4))]))
        out.append(Case("b64t", "small:nopad", [b, b" " + e.rstrip(b"=") + b"\n"]))
    out.append(Case("b64t", "small:nopad", [b"", b"\r\n \t\n"]))
    # texts whose length is B-3..B+3, 2B-3..2B+3, 3B-3..3B+3 for every decoder buffer size B
    wraps = [76, 64, 1, 0]
    eols = [b"\n", b"\r\n"]
    for B in sorted(bufs["b64decode"]):
        for k in (1, 2, 3):
            for off in range(-3, 4):
                L = k * B + off
                combos = []
                for shift in range(4):                  # every group phase at the boundary ...
                    for padded in (True, False):        # ... with and without padding
                        if off == 0 or thorough:
                            for r3 in (1, 2, 0):
                                combos.append((rng.choice(wraps), rng.choice(eols), padded, shift, rng.random() < 0.3, r3))
                        else:
                            combos.append((rng.choice(wraps), rng.choice(eols), padded, shift, rng.random() < 0.3, rng.choice((1, 2, 0))))
                if off == 0 or thorough:                # every wrapping at the exact multiples
                    for wrap in wraps:
                        for eol in eols:
                            combos.append((wrap, eol, rng.random() < 0.5, rng.randrange(4), False, rng.choice((1, 2))))
                for wrap, eol, padded, shift, inter, r3 in combos:
                    r = b64_text(rng, L, wrap, eol, padded, shift, inter, r3)
                    if r is None:
                        continue
                    stats["targets"] += 1
                    out.append(Case("b64t", "buf:%s" % ("pad" if padded else "nopad"), [r[0], r[1]]))
    return out, stats


def gen_buffer_cases(rng, bufs, thorough):
    """encoder side: raw lengths around the multiples of the encoder's chunk sizes; quoted-printable lines"""
    out = []
    for B in sorted(bufs["b64encode"]):
        for k in (1, 2, 3):
            for off in range(-3, 4):
                b = rbytes(rng, k * B + off)
                out.append(Case("b64", "buf", [b, base64.b64encode(b)]))
    # the port forms of the quoted-printable procedures (few: each call makes the library allocate 10^9 bytes)
    for n in [0, 1, 2, 3, 24, 25, 26, 75, 76, 77, 300] + ([1000, 4096] if thorough else []):
        out.append(Case("qpp", "empty" if n == 0 else "port", [rbytes(rng, n)]))
        if n:
            out.append(Case("qpp", "port", [bytes(rng.choice(b"abc =?_\r\n\t") for _ in range(n))]))
    for B in sorted(bufs["qpline"]):
        per = B // 3                                     # escapes per line
        for shift in range(0, 4):                        # phase of the =XX triple at the line end
            for m in sorted(set(sum([list(range(k * per - 3, k * per + 4)) for k in (1, 2, 3)], []))):
                out.append(Case("qp", "long", [b"a" * shift + b"\xff" * m]))
        for k in (1, 2, 3):
            for off in range(-5, 5):
                out.append(Case("qp", "long", [b"a" * (k * B + off)]))
                out.append(Case("qp", "long", [bytes(97 + (i % 26) if (i % 11) else 61 for i in range(k * B + off))]))
    return out


CP_BOUNDS = [0, 1, 0x7F, 0x80, 0xFF, 0x100, 0x7FF, 0x800, 0xFFF, 0x1000, 0xD7FF, 0xE000, 0xFFFD, 0xFFFF,
             0x10000, 0x10001, 0x1F600, 0xFFFFF, 0x100000, 0x10FFFF]


def rand_cp(rng, cls):
    while True:
        if cls == "ascii":
            return rng.randrange(0, 128)
        if cls == "latin":
            return rng.randrange(0x80, 0x800)
        if cls == "bmp":
            c = rng.randrange(0x800, 0x10000)
        else:
            return rng.randrange(0x10000, 0x110000)
        if not (0xD800 <= c <= 0xDFFF):
            return c


def utf_class(cps):
    if any(c >= 0x10000 for c in cps):
        return "astral"
    if any(c >= 0x80 for c in cps):
        return "bmp"
    return "ascii"


def gen_utf_cases(rng, thorough):
    seqs = [[c] for c in CP_BOUNDS] + [[97, c, 98] for c in CP_BOUNDS] + [[], CP_BOUNDS]
    for n in range(0, 65, 1 if thorough else 3):
        for cls in ("ascii", "latin", "bmp", "astral", "mixed"):
            seqs.append([rand_cp(rng, cls if cls != "mixed" else rng.choice(["ascii", "latin", "bmp", "astral"]))
                         for _ in range(n)])
    for n in (1024, 4096) if not thorough else (1023, 1024, 2048, 4095, 4096):
        seqs.append([rand_cp(rng, rng.choice(["ascii", "latin", "bmp", "astral"])) for _ in range(n)])
    out = []
    for cps in seqs:
        st = "".join(chr(c) for c in cps).encode("utf-8")
        out.append(Case("utf", utf_class(cps), [C(cps), st]))
    return out


FIXED = {"u16": (False, 2), "s16": (True, 2), "u32": (False, 4), "s32": (True, 4), "u64": (False, 8), "s64": (True, 8)}


def limit_values(signed, size, rng, nrand=3):
    bits = 8 * size
    if signed:
        lo, hi = -(1 << (bits - 1)), (1 << (bits - 1)) - 1
        vals = {lo, lo + 1, -1, 0, 1, hi - 1, hi, -256, 255, 256, -(1 << (bits - 2))}
    else:
        lo, hi = 0, (1 << bits) - 1
        vals = {0, 1, 255, 256, hi - 1, hi, 1 << (bits - 1), (1 << (bits - 1)) - 1}
    if size == 8:                      # fixnum / bignum boundary of the implementation
        vals |= {(1 << 62) - 1, 1 << 62, (1 << 61), (1 << 63) - 1}
        if signed:
            vals |= {-(1 << 62), -(1 << 62) - 1}
        else:
            vals |= {1 << 63, (1 << 63) + 1}
    vals = {v for v in vals if lo <= v <= hi}
    for _ in range(nrand):
        vals.add(rng.randrange(lo, hi + 1))
    return sorted(vals)


def dom_class(L, k, size):
    if 0 <= k and k + size <= L:
        return "in"
    if k < 0:
        return "oob-low"
    if k >= (1 << 31):
        return "oob-wrap"
    if k >= L:
        return "oob-high"
    return "oob-straddle"


def gen_acc_cases(rng, thorough):
    out = []

    def add(fam, op, b0, k, size, endian, val, group="main"):
        out.append(Case("acc", "%s:%s" % (fam, dom_class(len(b0), k, size)),
                        [Sym(op), b0, k, size, Sym(endian), val], group=group))

    for name, (signed, size) in FIXED.items():
        for endian in ("big", "little", "native"):
            # in range: every offset of a short vector, limit values
            L = size + 3
            for k in range(0, L - size + 1):
                b0 = rbytes(rng, L)
                add("fixed-ref", name + "-ref", b0, k, size, endian, 0)
                add("fixed-set", name + "-set", b0, k, size, endian, rng.choice(limit_values(signed, size, rng, 1)))
            for v in limit_values(signed, size, rng, 4 if thorough else 2):
                b0 = rbytes(rng, 17)
                k = rng.randrange(0, 17 - size + 1)
                add("fixed-set", name + "-set", b0, k, size, endian, v)
            for pat in (b"\x00", b"\xff", b"\x80", b"\x7f"):
                add("fixed-ref", name + "-ref", pat * size, 0, size, endian, 0)
                add("fixed-ref", name + "-ref", b"\x01" + pat * size + b"\x02", 1, size, endian, 0)
            for _ in range(6 if thorough else 2):
                L = rng.randrange(size, 40)
                add("fixed-ref", name + "-ref", rbytes(rng, L), rng.randrange(0, L - size + 1), size, endian, 0)
            # out of range: the outcome must be an error.  Offsets stay close to the vector so that a
            # missing check shows as a recorded result, not as a crash somewhere else; the vector has
            # 9 bytes so that a short overrun stays inside the allocator's padding.
            L = 9
            ks = sorted(set([-1, -size, L - size + 1, L - 1, L, L + 1, L + 7, (1 << 32), (1 << 32) + 1]))
            for k in ks:
                add("fixed-ref", name + "-ref", rbytes(rng, L), k, size, endian, 0)
                grp = "oobset" if 0 <= k < L else "main"
                add("fixed-set", name + "-set", rbytes(rng, L), k, size, endian, 1, group=grp)
            add("fixed-ref", name + "-ref", b"", 0, size, endian, 0)
    # 8-bit
    for k in (0, 3, 4, -1, 5):
        add("s8-ref", "s8-ref", bytes([200, 127, 128, 255]), k, 1, "big", 0)
        add("s8-set", "s8-set", bytes([1, 2, 3, 4]), k, 1, "big", rng.choice([-128, -1, 0, 127]))
        add("u8", "u8-ref", bytes([200, 127, 128, 255]), k, 1, "big", 0)
        add("u8", "u8-set", bytes([1, 2, 3, 4]), k, 1, "big", rng.choice([0, 128, 255]))
    for v in (-128, -127, -1, 0, 1, 126, 127):
        add("s8-set", "s8-set", bytes([9, 9, 9]), 1, 1, "big", v)
    for b in (0, 1, 127, 128, 129, 255):
        add("s8-ref", "s8-ref", bytes([7, b, 7]), 1, 1, "big", 0)
    # variable size
    for size in (1, 2, 3, 4, 5, 7, 8, 9, 16):
        for endian in ("big", "little"):
            for signed, nm in ((False, "uint"), (True, "sint")):
                L = size + 2
                for k in (0, 1, 2):
                    add("var", nm + "-ref", rbytes(rng, L), k, size, endian, 0)
                for v in limit_values(signed, size, rng, 2):
                    add("var", nm + "-set", rbytes(rng, L), rng.randrange(0, 3), size, endian, v)
                for pat in (b"\x00", b"\xff", b"\x80"):
                    add("var", nm + "-ref", pat * size, 0, size, endian, 0)
                for k in (-1, 3, L, L + 5):
                    add("var", nm + "-ref", rbytes(rng, L), k, size, endian, 0)
                    add("var", nm + "-set", rbytes(rng, L), k, size, endian, 1)
    add("var", "uint-ref", rbytes(rng, 4), 0, 0, "big", 0)
    add("var", "sint-ref", rbytes(rng, 4), 0, 0, "little", 0)
    # (chibi bytevector)
    for op, size in (("le16-ref", 2), ("be16-ref", 2), ("le32-ref", 4), ("be32-ref", 4)):
        for k in range(0, 4):
            add("chibi", op, rbytes(rng, size + 3), k, size, "big", 0)
        for pat in (b"\x00", b"\xff", b"\x80"):
            add("chibi", op, pat * size, 0, size, "big", 0)
        for k in (-1, size + 3, size + 9):
            add("chibi", op, rbytes(rng, size + 3), k, size, "big", 0)
    return out


UV = {"s8": (True, 1), "u16": (False, 2), "s16": (True, 2), "u32": (False, 4), "s32": (True, 4),
      "u64": (False, 8), "s64": (True, 8)}


def gen_uv_cases(rng, thorough):
    out = []
    for ty, (signed, size) in UV.items():
        vals = limit_values(signed, size, rng, 2)
        for n in (1, 4):
            fill = rng.choice(vals)
            for i in sorted(set([0, n - 1, n, n + 1, -1, 1 << 32, n + 100])):
                dc = "in" if 0 <= i < n else ("oob-wrap" if i >= (1 << 31) else "oob")
                out.append(Case("uv", "uv:" + dc, [Sym(ty), n, fill, Sym("ref"), i, 0]))
                out.append(Case("uv", "uv:" + dc, [Sym(ty), n, fill, Sym("set"), i, rng.choice(vals)]))
        for v in vals:
            for i in range(3):                       # every limit value at every position, neighbours different
                fill = rng.choice([x for x in vals if x != v])
                out.append(Case("uv", "uv:in", [Sym(ty), 3, fill, Sym("set"), i, v]))
            out.append(Case("uv", "uv:in", [Sym(ty), 3, v, Sym("ref"), rng.randrange(3), 0]))
        out.append(Case("uv", "uv:oob", [Sym(ty), 0, 0, Sym("ref"), 0, 0]))
    return out


def gen_int_cases(rng, thorough):
    vals = {0, 1, 127, 128, 255, 256, 16383, 16384, 65535, 65536}
    for k in (14, 16, 21, 28, 31, 32, 35, 62, 63, 64, 70, 100, 127, 128, 150):
        vals |= {(1 << k) - 1, 1 << k, (1 << k) + 1}
    for _ in range(60 if thorough else 20):
        vals.add(rng.getrandbits(rng.randrange(1, 152)))
    out = [Case("int", "int", [v]) for v in sorted(vals)]
    xs = [b"", b"\x00", b"\x01", b"\x00\x01", b"\xff", b"\x01\x00", b"\x0a\xbc", b"\xff" * 9, b"\x80" + b"\x00" * 8]
    xs += [rbytes(rng, n) for n in range(1, 33)]
    out += [Case("hex", "lead0" if (x[:1] == b"\x00") else "hex", [x]) for x in xs]
    return out


# ---- JSON: abstract values are token sequences (see Codec.tla); python renders text from them
J_FEATURES = [  # name, code point, styles
    ("plain", 97, ("raw", "u", "U")),
    ("quote", 34, ("short", "u")),
    ("backslash", 92, ("short", "u")),
    ("slash", 47, ("raw", "short", "u")),
    ("bs", 8, ("short", "u")),
    ("ff", 12, ("short", "u")),
    ("nl", 10, ("short", "u")),
    ("cr", 13, ("short", "u")),
    ("tab", 9, ("short", "u")),
    ("nul", 0, ("u",)),
    ("ctl", 1, ("u", "U")),
    ("ctl", 31, ("u",)),
    ("del", 127, ("raw", "u")),
    ("latin", 233, ("raw", "u", "U")),
    ("latin", 0x7FF, ("raw", "u")),
    ("bmp", 0x20AC, ("raw", "u", "U")),
    ("bmp", 0xFFFD, ("raw", "u")),
    ("bmp", 0xD7FF, ("raw", "u")),
    ("bmp", 0xE000, ("raw", "U")),
    ("astral", 0x10000, ("raw", "u")),
    ("astral", 0x1F600, ("raw", "u", "U")),
    ("astral", 0x10FFFF, ("raw", "U")),
]
J_SHORT = {34: '\\"', 92: "\\\\", 47: "\\/", 8: "\\b", 12: "\\f", 10: "\\n", 13: "\\r", 9: "\\t"}


def j_feature_of(cp):
    for name, c, _ in J_FEATURES:
        if c == cp:
            return name
    if cp < 32:
        return "ctl"
    if cp < 127:
        return "plain"
    if cp < 0x800:
        return "latin"
    return "bmp" if cp < 0x10000 else "astral"


def j_render_cp(cp, style):
    if style == "short":
        return J_SHORT[cp].encode()
    if style in ("u", "U"):
        fmt = "\\u%04x" if style == "u" else "\\u%04X"
        if cp >= 0x10000:
            v = cp - 0x10000
            return (fmt % (0xD800 + (v >> 10)) + fmt % (0xDC00 + (v & 0x3FF))).encode()
        return (fmt % cp).encode()
    return chr(cp).encode("utf-8")


def j_styles(cp):
    if cp in J_SHORT:
        return ["short", "u"] + (["raw"] if cp == 47 else [])
    if cp < 32:
        return ["u", "U"]
    return ["raw", "u", "U"]


def j_render_string(cps, style_of):
    return b'"' + b"".join(j_render_cp(c, style_of(c)) for c in cps) + b'"'


def j_render(toks, style_of, ws):
    """pure formatting of a token sequence; ws() yields optional white space"""
    out = []
    prev = None
    for t in toks:
        k = t[0]
        if prev is not None and k not in (6, 8) and prev not in (5, 7, 9):
            out.append(b"," + ws())
        if k == 0:
            out.append(b"null")
        elif k == 1:
            out.append(b"false")
        elif k == 2:
            out.append(b"true")
        elif k == 3:
            out.append((b"-" if t[1] else b"") + str(t[2]).encode())
        elif k == 4:
            out.append(j_render_string(t[1:], style_of))
        elif k == 5:
            out.append(b"[" + ws())
        elif k == 6:
            out.append(ws() + b"]")
        elif k == 7:
            out.append(b"{" + ws())
        elif k == 8:
            out.append(ws() + b"}")
        else:
            out.append(j_render_string(t[1:], style_of) + ws() + b":" + ws())
        prev = k
    return b"".join(out)


def j_wrap(pos, strtok):
    """place a string at a position: top level, array element, member value, member name"""
    if pos == "top":
        return [strtok]
    if pos == "arr":
        return [[5], [3, 0, 1], strtok, [0], [6]]
    if pos == "val":
        return [[7], [9, 107], strtok, [8]]
    return [[7], [9] + strtok[1:], [2], [8]]


def gen_json_cases(rng, thorough, bufs):
    out = []
    nows = lambda: b""
    # one string feature at a time
    for name, cp, styles in J_FEATURES:
        for style in styles:
            for pos in ("top", "arr", "val", "key"):
                for cps in ([cp], [97, cp, 98]):
                    toks = j_wrap(pos, [4] + cps)
                    text = j_render(toks, lambda c: style if c == cp else "raw", nows)
                    out.append(Case("json", "str:%s/%s" % (name, style), [toks, text], feat=[name]))
    # scalars and structure
    ints = [0, 1, -1, 9, 10, -10, 99, 100, 12345, 123456789, 1000000000, 2147483647, -2147483647, 2147483646]
    scal = [[[0]], [[1]], [[2]]] + [[[3, 1 if v < 0 else 0, abs(v)]] for v in ints]
    for toks in scal:
        out.append(Case("json", "scalar", [toks, j_render(toks, None, nows)]))
        out.append(Case("json", "scalar", [[[5]] + toks + [[6]], j_render([[5]] + toks + [[6]], None, nows)]))
    out.append(Case("json", "scalar", [[[3, 0, 0]], b"-0"]))
    structs = [
        [[5], [6]], [[7], [8]], [[5], [5], [6], [6]], [[5], [7], [8], [6]], [[7], [9, 97], [5], [6], [8]],
        [[7], [9], [0], [8]],                                      # empty member name
        [[5], [0], [1], [2], [3, 0, 4], [4, 120], [6]],
        [[7], [9, 97], [0], [9, 98], [1], [9, 99], [2], [9, 100], [3, 1, 5], [8]],
        [[5], [5], [3, 0, 1], [6], [5], [3, 0, 2], [3, 0, 3], [6], [5], [6], [6]],
        [[5]] * 8 + [[6]] * 8,                                     # depth 8
        [[5]] * 8 + [[3, 0, 7]] + [[6]] * 8,
        sum([[[7], [9, 97 + i]] for i in range(8)], []) + [[4, 122]] + [[8]] * 8,
        sum([[[5], [7], [9, 107]] for _ in range(4)], []) + [[0]] + [[8], [6]] * 4,
        [[5]] + [[3, 0, i] for i in range(40)] + [[6]],
        [[7]] + sum([[[9, 107, 48 + i // 10, 48 + i % 10], [3, 0, i]] for i in range(30)], []) + [[8]],
        [[4] + [97 + (i % 26) for i in range(300)]],               # longer than the reader's first buffer
        [[4] + [0x20AC] * 130],
        [[4] + [0x1F600] * 70],
        [[4]],
    ]
    wss = [nows, lambda: b" ", lambda: b"\n", lambda: b"\t", lambda: b"\r\n", lambda: b"  \n\t "]
    for toks in structs:
        for ws in wss if len(toks) < 60 else wss[:2]:
            out.append(Case("json", "struct", [toks, j_render(toks, lambda c: "raw", ws)]))
        out.append(Case("json", "struct", [toks, b" \n" + j_render(toks, lambda c: "raw", nows) + b"\n "]))

    # strings around the sizes of the reader's string buffer (it starts with 128 bytes and doubles)
    for B0 in sorted(bufs["jsonstring"]):
        for B in (B0, 2 * B0, 4 * B0, 8 * B0):
            for off in range(-7, 3):
                for name, cp, style in (("plain", 97, "raw"), ("latin", 233, "raw"), ("bmp", 0x20AC, "raw"), ("astral", 0x1F600, "raw"),
                                        ("nl", 10, "short"), ("latin", 233, "u"), ("astral", 0x1F600, "u")):
                    cps = [97] * (B + off) + [cp, 98, cp]
                    toks = [[4] + cps] if off % 2 else [[7], [9] + cps, [4] + cps, [8]]
                    text = j_render(toks, lambda c: style if c == cp else "raw", nows)
                    out.append(Case("json", "strbuf:%s/%s" % (name, style), [toks, text], feat=[name]))
    # seeded random values, depth <= 8
    pool = [c for _, c, _ in J_FEATURES] + [32, 48, 65, 122, 0x3BB, 0x4E2D]

    def rstr():
        return [rng.choice(pool) if rng.random() < 0.4 else rng.randrange(97, 123) for _ in range(rng.randrange(0, 9))]

    def rval(depth):
        r = rng.random()
        if depth >= 8 or r < 0.35:
            c = rng.randrange(5)
            if c == 0:
                return [[rng.randrange(3)]]
            if c == 1:
                v = rng.choice(ints + [rng.randrange(-2147483647, 2147483648)])
                return [[3, 1 if v < 0 else 0, abs(v)]]
            return [[4] + rstr()]
        if r < 0.7:
            toks = [[5]]
            for _ in range(rng.randrange(0, 4)):
                toks += rval(depth + 1)
            return toks + [[6]]
        toks = [[7]]
        keys = set()
        for _ in range(rng.randrange(0, 4)):
            k = tuple(rstr())
            if k in keys:
                continue
            keys.add(k)
            toks += [[9] + list(k)] + rval(depth + 1)
        return toks + [[8]]

    n = 6000 if thorough else 250
    for _ in range(n):
        toks = rval(rng.choice([0, 0, 3, 6]))
        if len(toks) > 120:
            continue
        feats = sorted(set(j_feature_of(c) for t in toks if t[0] in (4, 9) for c in t[1:]))
        style_of = lambda c: rng.choice(j_styles(c))
        ws = rng.choice(wss)
        out.append(Case("json", "mixed", [toks, j_render(toks, style_of, ws)], feat=feats))
    return out


# ---- CSV
C_FIELDS = [("plain", ""), ("plain", "a"), ("plain", "abc"), ("space", "a b"), ("space", " lead"), ("space", "trail "),
            ("quote", '"'), ("quote", 'a"b'), ("quote", '""'), ("comma", ","), ("comma", "a,b"),
            ("newline", "\n"), ("newline", "a\nb"), ("newline", "\r\n"), ("newline", "x\r\ny"),
            ("unicode", "\u00e9"), ("unicode", "\u65e5\u672c"), ("plain", "x" * 300), ("quote", '","'),
            ("plain", "0"), ("plain", "-1.5")]


def c_render(tab, quote_all, eol, final):
    rows = []
    for r in tab:
        fs = []
        for f in r:
            b = bytes(f)
            if quote_all or any(c in b for c in b'",\r\n'):
                b = b'"' + b.replace(b'"', b'""') + b'"'
            fs.append(b)
        rows.append(b",".join(fs))
    return eol.join(rows) + (eol if (final and rows) else b"")


def gen_csv_cases(rng, thorough):
    out = []

    def add(cls, rows):
        tab = [[list(f.encode("utf-8")) for f in r] for r in rows]
        for quote_all in (True, False):
            for eol in (b"\r\n", b"\n"):
                for final in (True, False):
                    # a record that is one empty unquoted field is an empty line: RFC 4180 does not say
                    # whether that is a record, so such rows are not generated (see the findings note)
                    out.append(Case("csv", cls, [tab, c_render(tab, quote_all, eol, final)]))

    for cls, f in C_FIELDS:
        if f != "":
            add(cls, [[f]])
        add(cls, [["k", f]])
        add(cls, [[f, "k"]])
        add(cls, [["a", f, "b"], [f, f]])
    add("plain", [["a", "b", "c"], ["d", "e", "f"], ["g", "h", "i"]])
    add("plain", [["", ""], ["", "", ""]])
    add("plain", [["a"], ["b", "c"], ["d", "e", "f"]])
    for _ in range(1000 if thorough else 60):
        rows = []
        for _ in range(rng.randrange(1, 6)):
            r = [rng.choice(C_FIELDS)[1] for _ in range(rng.randrange(1, 6))]
            if r == [""]:
                r = ["", ""]
            rows.append(r)
        add("mixed", rows)
    return out


# ---- hostile input
def mutate(rng, b, n):
    out = []
    specials = b'=%"\\[]{},:\r\n\t \x00\xff\x80\xc3\xe2\xf0-+_~eE.0'
    for _ in range(n):
        m = bytearray(b)
        for _ in range(rng.randrange(1, 4)):
            op = rng.randrange(6)
            pos = rng.randrange(len(m) + 1)
            if op == 0 and m:
                m[pos % len(m)] ^= 1 << rng.randrange(8)
            elif op == 1 and m:
                del m[pos % len(m)]
            elif op == 2:
                m.insert(pos, rng.choice(specials))
            elif op == 3:
                m = m[:pos]
            elif op == 4 and m:
                m[pos % len(m)] = rng.choice(specials)
            else:
                m[pos:pos] = m[max(0, pos - rng.randrange(1, 9)):pos]
        out.append(bytes(m[:4096]))
    return out


def gen_hostile_cases(rng, thorough):
    import quopri, urllib.parse, csv as pycsv, io
    nm = 100 if thorough else 10
    out = []

    primary = ("b64", "qp", "uri", "json", "csv", "utf8", "utf16", "utf32", "hex", "ber")

    def add(dec, cls, b):
        # quick tier: the variants of a decoder (string / port / header forms) get a seeded quarter of the bulk
        # classes per run, so that successive seeds rotate through them; targeted and valid inputs always run
        if not thorough and dec not in primary and cls in ("byte", "pair", "mutated", "random") and rng.random() >= 0.25:
            return
        out.append(Case("h", "%s:%s" % (dec, cls), [Sym(dec), bytes(b[:4096])], group="hostile"))

    singles = [bytes([b]) for b in range(256)]
    sp = b'=%"\\[{,:\r\n \x00\xff+'
    pairs = [bytes([a, b]) for a in sp for b in sp]
    raw = [rbytes(rng, n) for n in (1, 2, 3, 5, 8, 13, 64, 100, 1000, 4096)]
    bases = {}
    rnd = [rbytes(rng, n) for n in (0, 1, 2, 3, 10, 57, 58, 100, 300, 3000)]
    bases["b64"] = [base64.b64encode(b) for b in rnd] + [base64.encodebytes(b) for b in rnd[5:]]
    bases["qp"] = [quopri.encodestring(b) for b in rnd] + [b"abc =\r\n def=3D", b"a" * 100 + b"=\r\n" + b"b" * 100]
    bases["uri"] = [urllib.parse.quote_from_bytes(b).encode() for b in rnd[:8]] + [b"a=1&b=%20c;d=+e&f", b"http://u:p@h:80/p/a?q=1#f"]
    jv = [None, True, 12, -3, "a\"b\\c\n\u00e9\U0001F600", [], {}, [1, [2, [3, {"a": [None, False]}]]],
          {"k": "v", "n": 1.5e3, "e": 1E-2, "l": [1, 2, 3]}, "x" * 200, [0] * 100]
    bases["json"] = [json.dumps(v).encode() for v in jv] + [json.dumps(v, ensure_ascii=False).encode() for v in jv[4:5]]
    cs = io.StringIO()
    pycsv.writer(cs).writerows([["a", "b,c", 'd"e', "f\ng", ""], ["", "x"], ["1", "2", "3"]])
    bases["csv"] = [cs.getvalue().encode(), b'a,b\r\n"c","d""e"\r\n', b"a,b,c\n"]
    bases["utf8"] = ["".join(chr(c) for c in CP_BOUNDS[1:]).encode("utf-8"), "h\u00e9llo \u65e5\u672c \U0001F600".encode("utf-8")]
    bases["utf16"] = [s.decode("utf-8").encode("utf-16-be") for s in bases["utf8"]] + \
                     [b"\xff\xfe" + s.decode("utf-8").encode("utf-16-le") for s in bases["utf8"]]
    bases["utf32"] = [s.decode("utf-8").encode("utf-32-be") for s in bases["utf8"]] + \
                     [b"\xff\xfe\x00\x00" + s.decode("utf-8").encode("utf-32-le") for s in bases["utf8"]]
    bases["hex"] = [b"00ff10", b"abcdef0123456789", b"ABCDEF", b"0"]
    bases["ber"] = [b"\x00", b"\x7f", b"\x81\x00", b"\xff\xff\xff\x7f", b"\x80\x80\x01"]
    decs = {"b64": ["b64", "b64s", "b64p"], "qp": ["qp", "qps", "qph"], "uri": ["uri", "urip", "uriq", "uris"],
            "json": ["json"], "csv": ["csv"], "utf8": ["utf8"], "utf16": ["utf16", "utf16l"], "utf32": ["utf32"],
            "hex": ["hex"], "ber": ["ber"]}
    targeted = {
        "b64": [b"=", b"==", b"A", b"AA", b"AAA", b"A=", b"AA=", b"AAA=", b"A===", b"=AAA", b"AA==AA==", b"A\nA\nA\nA", b"****",
                b"QUJD" * 1024, b"Q" * 4095, (b"QUJD" * 19 + b"\r\n") * 50, b"QQ=" + b"=" * 4000],
        "qp": [b"=", b"a=", b"=\n", b"=\r", b"=\r\n", b"a=\r\n", b"=4", b"=4\n", b"=zz", b"=4z", b"==", b"===", b" ", b"a ", b"a \t ",
               b"a \r", b"a \n", b"a \r\n", b"_", b"=" * 4096, b" " * 4096, b"a" * 4096, b"=\r" * 2000, b"=41" * 1365, b"=a1", b"\t"],
        "uri": [b"%", b"%4", b"%41", b"%zz", b"%4z", b"%%", b"%%%", b"a%", b"a%4", b"+", b"%" * 4096, b"%41" * 1365, b"%ff%fe",
                b"%00", b"a=b=c", b"&&&", b";;", b"=", b"a&=b", b"://", b"a://", b"http://", b"http://@:/", b"http://h:p/", b"x:" + b"/" * 4000,
                b"http://" + b"@" * 100, b"?#", b"#?", b"a?b#c?d#e", b"%e9", b"\xe9"],
        "json": [b"", b" ", b"[", b"{", b"]", b"}", b",", b":", b'"', b'"a', b'"\\', b'"\\u', b'"\\u1', b'"\\u12', b'"\\u123', b'"\\u123g"',
                 b'"\\ud800"', b'"\\ud800\\u0041"', b'"\\ud800\\n"', b'"\\ud800x"', b'"\\ud800\\', b'"\\udc00"', b'"\\ud800\\ud800"',
                 b'"\\x"', b"[1,]", b"[,1]", b"[1 2]", b"[1,,2]", b'{"a"}', b'{"a":}', b'{"a":1,}', b"{1:2}", b'{"a" 1}', b"{,}", b"[}", b"{]",
                 b"tru", b"t", b"n", b"f", b"nul", b"nulx", b"truefalse", b"TRUE", b"Null", b"-", b"+", b"+1", b"-a", b"1.", b".5", b"1e", b"1e+",
                 b"1e99999", b"-1e-99999", b"1.5e3", b"1E2", b"0x10", b"01", b"1" * 4000, b"-" + b"9" * 4000, b"1." + b"1" * 4000, b"1e" + b"9" * 400,
                 b"9223372036854775807", b"9223372036854775808", b"4611686018427387904", b"-4611686018427387905", b"1e400", b"NaN", b"Infinity",
                 b"[" * 4096, b"{" * 4096, b"[" * 2048 + b"]" * 2048, b'{"a":' * 800, b'[{"a":' * 600, b"[" * 1000 + b"1" + b"]" * 999,
                 b'"' + b"a" * 4094, b'"' + b"\\" * 4095, b'"' + b"\\u0041" * 600 + b'"', b'"' + b"\xff\xfe" * 100 + b'"', b'"\xc3"', b'"\xf0\x9f"',
                 b'"a\x00b"', b'"\x1f"', b"\xef\xbb\xbf[]", b"[1]x", b"[] []", b"//c\n1", b"'a'", b"[1,2" + b" " * 4000],
        "csv": [b'"', b'"a', b'a"', b'a"b', b'"a"b', b'"a""', b'""', b'"""', b'""""', b"\r", b"\n", b"\r\n", b"\r\r", b"\n\n\n", b",", b",,,", b",\n,",
                b'"\r', b'a,"', b"a\rb", b"a\r\rb", b"," * 4096, b"\n" * 4096, b'"' * 4095, b'"' * 4096, b"a" * 4096, b'"' + b"a," * 2000,
                b"\xff\xfe", b"a,\xc3", b"\x00,\x00"],
        "utf8": [b"\x80", b"\xbf", b"\xc0\x80", b"\xc1\xbf", b"\xc2", b"\xe0", b"\xe0\x80", b"\xe0\x80\x80", b"\xed\xa0\x80", b"\xed\xbf\xbf",
                 b"\xf0", b"\xf0\x80", b"\xf0\x90\x80", b"\xf4\x90\x80\x80", b"\xf5\x80\x80\x80", b"\xf8\x88\x80\x80\x80", b"\xfe", b"\xff",
                 b"a\xc3", b"a\xe2\x82", b"a\xf0\x9f\x98", b"\xf0" * 4096, b"\xe2" * 4095, b"\xc3" * 4093, b"\x80" * 4096, b"\xf7\xbf\xbf\xbf"],
        "utf16": [b"\x00", b"\xd8\x00", b"\xd8\x00\x00", b"\xd8\x00\x00\x41", b"\xdc\x00", b"\xdc\x00\xd8\x00", b"\xd8\x00\xd8\x00", b"\xff\xfe",
                  b"\xfe\xff", b"\xff\xfe\x00", b"\xd8" * 4096, b"\xd8\x00" * 2048, b"\xd8\x00\xdc\x00" * 1024, b"\xdb\xff\xdf\xff", b"\x00\x00"],
        "utf32": [b"\x00", b"\x00\x00", b"\x00\x00\x00", b"\x00\x11\x00\x00", b"\xff\xff\xff\xff", b"\x7f\xff\xff\xff", b"\x00\x00\xd8\x00",
                  b"\xff\xfe\x00\x00", b"\x00\x00\xfe\xff", b"\x80\x00\x00\x00", b"\xff" * 4096, b"\x00\x10\xff\xff" * 1024, b"\x00\x20\x00\x00"],
        "hex": [b"", b"g", b"0g", b" 1", b"-1", b"+ff", b"1/2", b"1.5", b"1e3", b"#xff", b"f" * 4096, b"0" * 4096, b"\xe9", b"1 2"],
        "ber": [b"", b"\x80", b"\xff", b"\x80\x80\x80", b"\xff" * 4096, b"\x80" * 4095 + b"\x01", b"\x81" * 100],
    }
    for fam, ds in decs.items():
        for d in ds:
            for b in targeted[fam]:
                add(d, "targeted", b)
            for b in bases[fam]:
                add(d, "valid", b)
                for m in mutate(rng, b, nm):
                    add(d, "mutated", m)
            for b in singles:
                add(d, "byte", b)
            for b in pairs if (thorough or d in ("qp", "uri", "json", "csv", "b64")) else pairs[::7]:
                add(d, "pair", b)
            for b in raw:
                add(d, "random", b)
    # every byte value after every character that makes the decoder look ahead / switch mode
    for a in (13, 34, 10, 44):
        for b in range(256):
            add("csv", "pair", bytes([a, b]))
    for b in range(256):
        add("json", "pair", bytes([34, b]))
        add("json", "pair", bytes([34, 92, b, 34]))
        add("json", "pair", bytes([34, 92, 117, b, 48, 48, 48, 34]))
        add("qp", "pair", bytes([61, b]))
        add("qp", "pair", bytes([61, 52, b]))
        add("qp", "pair", bytes([32, b]))
        add("uri", "pair", bytes([37, b, 48]))
        add("uri", "pair", bytes([37, 52, b]))
    return out


def probe_cases():
    """a fixed computation over every codec (classes that involve no open finding); run at the end of
    every process that was fed hostile input: the answers must still be what the specification says"""
    x = bytes([0, 1, 2, 61, 127, 128, 200, 255, 10, 13])
    toks = [[5], [3, 0, 7], [4, 104, 105, 233], [7], [9, 107], [0], [9, 108], [5], [2], [1], [6], [8], [6]]
    tab = [[list(b"a"), list(b"b c")], [list(b"d,e"), list(b"")]]
    return [
        Case("b64", "probe", [x, base64.b64encode(x)], group="hostile"),
        Case("qp", "probe", [x], group="hostile"),
        Case("uri", "probe", [C(x), 0], group="hostile"),
        Case("utf", "probe", [C([97, 233, 0x20AC]), "a\u00e9\u20ac".encode("utf-8")], group="hostile"),
        Case("acc", "probe", [Sym("u32-ref"), bytes([1, 2, 3, 4, 5, 6]), 1, 4, Sym("big"), 0], group="hostile"),
        Case("acc", "probe", [Sym("s64-set"), bytes(10), 1, 8, Sym("little"), -2], group="hostile"),
        Case("uv", "probe", [Sym("s16"), 3, -5, Sym("set"), 1, 300], group="hostile"),
        Case("int", "probe", [1000000007], group="hostile"),
        Case("json", "probe", [toks, j_render(toks, lambda c: "raw", lambda: b" ")], group="hostile"),
        Case("csv", "probe", [tab, c_render(tab, False, b"\r\n", True)], group="hostile"),
    ]


# ----------------------------------------------------------------------------------------------
# running the driver (with recovery after a crash: the rest of the cases runs in a new process)
# ----------------------------------------------------------------------------------------------
def run_chunk(build, sc, label, cases, env=None):
    """-> list of trace lines (strings, with X events), number of processes used"""
    lines = []
    rest = list(cases)
    nproc = 0
    t_start = time.time()
    while rest:
        nproc += 1
        if nproc > 200:
            raise Broken("chunk %s: more than 200 crashes, giving up" % label)
        cf = sc.file("cases_%s_%d.txt" % (label, nproc))
        with open(cf, "w") as f:
            for c in rest:
                f.write(c.line() + "\n")
        to = 0
        try:
            p = build.run([DRIVER, cf], timeout=PROC_TIMEOUT, env=env)
            rc, outb, err = p.returncode, p.stdout, p.stderr
        except subprocess.TimeoutExpired as ex:
            rc, outb, err, to = -9, ex.stdout or b"", ex.stderr or b"", 1
        got = [expand(ln) for ln in outb.decode("ascii", errors="replace").split("\n") if ln.startswith("{") and ln.endswith("}")]
        done = any(ln.startswith('{"e":"Done"') for ln in got)
        lines += got
        lines.append('{"e":"X","id":0,"rc":%d,"to":%d,"grp":"%s"}' % (rc, to, re.sub(r"_?\d+$", "", label)))
        if done:
            break
        # which case was open when the process ended?
        last_b = None
        closed = set()
        for ln in got:
            m = re.match(r'\{"e":"([BC])","id":(\d+)', ln)
            if m:
                if m.group(1) == "B":
                    last_b = int(m.group(2))
                else:
                    closed.add(int(m.group(2)))
        if last_b is None:
            raise Broken("driver produced no case events (rc=%s): %s" % (rc, err.decode(errors="replace")[-1500:]))
        idx = [i for i, c in enumerate(rest) if c.id == last_b]
        if not idx:
            raise Broken("driver reported unknown case id %s" % last_b)
        rest = rest[idx[0] + 1:]
    TIMES[label] = (round(time.time() - t_start, 1), nproc, len(cases))
    return lines, nproc


def validate(sc, label, lines):
    """TLC judges one trace file -> (accepted, {id: [claims]}, TLCResult)"""
    tf = sc.file("trace_%s.ndjson" % label)
    with open(tf, "w") as f:
        f.write("\n".join(lines) + "\n")
    r = vlib.run_tlc("CodecTrace.tla", "CodecTrace.cfg", sc.path, env={"TRACE": tf}, workers=1, timeout=1500, heap="4g")
    if r.error or r.violated or r.rc != 0:
        raise Broken("CodecTrace failed on %s: %s\n%s" % (label, r.error or r.violated, r.out[-1500:]))
    rej = []
    for m in re.finditer(r'<<\s*"REJECT",\s*(\d+),\s*<<(.*?)>>\s*>>', r.out, re.S):
        rej.append((int(m.group(1)), re.findall(r'"([^"]+)"', m.group(2))))
    m = re.search(r'<<"SUMMARY", (\d+), (\d+), (\d+)>>', r.out)
    if not m:
        raise Broken("CodecTrace printed no summary for %s:\n%s" % (label, r.out[-1500:]))
    if int(m.group(2)) != len(rej) or int(m.group(3)) != 0:
        raise Broken("CodecTrace summary does not match its REJECT lines on %s: %s vs %d" % (label, m.group(0), len(rej)))
    return int(m.group(1)), rej, r


def selftest(sc, lines):
    want = {}
    out = []
    k = 0
    for i, ln in enumerate(lines):
        if not ln.startswith('{"e":"C"') or i == 0 or not lines[i - 1].startswith('{"e":"B"'):
            continue
        ev = json.loads(ln)
        if ev["kind"] == "b64" and len(ev["x"]) >= 3 and ev["enc"] and ev["enc"][0] >= 0 and "b64" not in want:
            bad = dict(ev)
            bad["enc"] = [ev["enc"][0] ^ 1] + ev["enc"][1:]                 # one recorded byte changed
            bad["id"] = 900001
            want["b64"] = (900001, "enc-means-x")
            out += ['{"e":"B","id":900001}', json.dumps(bad, separators=(",", ":"))]
        elif ev["kind"] == "acc" and ev["oc"] == "ok" and ev["op"].endswith("-ref") and ev["v"] and "acc" not in want:
            bad = dict(ev)
            bad["v"] = [1 - ev["v"][0]] + ev["v"][1:] if len(ev["v"]) > 1 else [0, 1]   # sign / value changed
            bad["id"] = 900002
            want["acc"] = (900002, "ref-value")
            out += ['{"e":"B","id":900002}', json.dumps(bad, separators=(",", ":"))]
        elif ev["kind"] == "json" and ev["rd"] == ev["toks"] and len(ev["toks"]) > 2 and "json" not in want:
            bad = dict(ev)
            bad["rd"] = ev["rd"][:-1]                                         # one token dropped
            bad["id"] = 900003
            want["json"] = (900003, "read")
            out += ['{"e":"B","id":900003}', json.dumps(bad, separators=(",", ":"))]
        elif ev["kind"] == "h" and "h" not in want:
            want["h"] = (900004, "crash")
            out += ['{"e":"B","id":900004}', '{"e":"X","id":0,"rc":-11,"to":0,"grp":"selftest"}']   # result never recorded
        if len(want) == 4:
            break
    if len(want) < 3:
        raise Broken("self-test: could not find events to corrupt")
    if not out[-1].startswith('{"e":"X"'):
        out.append('{"e":"X","id":0,"rc":0,"to":0,"grp":"selftest"}')
    _, rej, _ = validate(sc, "selftest", out)
    rej = dict(rej)
    for kind, (i, claim) in want.items():
        if i not in rej:
            raise Broken("self-test: corrupted %s event (expected to fail %s) was accepted" % (kind, claim))


def key_of(c, claim):
    """structural key of a rejection: kind, failed claim, class of the input"""
    cls = c.cls
    if cls == "probe" and claim in ("crash", "hang") and c.feat:
        return "h:%s:%s" % (claim, c.feat[0])        # the probe after a hostile batch died: containment of that decoder
    if c.kind == "h":
        cls = cls.split(":")[0]                      # the decoder; which mutation hit it is incidental
    elif c.kind == "json" and claim in ("write", "reread") and cls.startswith("str:"):
        cls = cls.split("/")[0]                      # the writer does not see how the input text spelled the character
    return "%s:%s:%s" % (c.kind, claim, cls)


# ----------------------------------------------------------------------------------------------
def run():
    chk = vlib.Check("C19")
    rng = chk.rng
    import shutil
    shutil.rmtree(chk.replay_dir, ignore_errors=True)          # replay files of earlier runs of this property
    with vlib.Scratch("c19") as sc:
        # ---- the specification checks itself (while the implementation is being built); the same run prints
        # the small enumeration
        from concurrent.futures import ThreadPoolExecutor
        with ThreadPoolExecutor(max_workers=1) as ex:
            fut = ex.submit(lambda: vlib.run_tlc("CodecMC.tla", "CodecMC.cfg", sc.path, workers=4, timeout=900, heap="4g"))
            build = vlib.build_repo(sc.sub("build"))
            r = fut.result()
        vlib.require_tlc_ok(r, "CodecMC")
        if r.violated:
            raise Broken("Codec.tla violates its own laws (%s):\n%s" % (r.violated, r.out[-2000:]))
        chk.add_mc("CodecMC", r)
        chk.cov["exhaustive"] = True
        m = re.search(r'<<\s*"GEN",\s*"(\[.*?\])"\s*>>', r.out, re.S)
        if not m:
            raise Broken("CodecMC did not print the small enumeration")
        small = json.loads(re.sub(r"\s+", "", m.group(1)))
        if len(small) < 2000:
            raise Broken("small enumeration too small: %d" % len(small))
        # ---- cases
        bufs = buffer_sizes()
        chk.cov["buffer_sizes"] = {k: sorted(v) if isinstance(v, set) else v for k, v in bufs.items()}
        cases = []
        cases += gen_bytestring_cases(rng, small, chk.thorough)
        tcases, tstats = gen_b64_text_cases(rng, small, bufs, chk.thorough)
        cases += tcases
        cases += gen_buffer_cases(rng, bufs, chk.thorough)
        chk.cov["base64_texts_at_buffer_boundaries"] = tstats["targets"]
        cases += gen_utf_cases(rng, chk.thorough)
        cases += gen_acc_cases(rng, chk.thorough)
        cases += gen_uv_cases(rng, chk.thorough)
        cases += gen_int_cases(rng, chk.thorough)
        cases += gen_json_cases(rng, chk.thorough, bufs)
        cases += gen_csv_cases(rng, chk.thorough)
        hostile = gen_hostile_cases(rng, chk.thorough)
        for i, c in enumerate(cases + hostile):
            c.id = i + 1
        nid = len(cases) + len(hostile)
        chunks = []                                  # (label, [cases])
        main = [c for c in cases if c.group == "main"]
        oob = [c for c in cases if c.group == "oobset"]
        cur, w = [], 0                               # chunks of bounded size and bounded input volume
        nm = 0
        for c in main:
            wc = len(c.line())
            if cur and (len(cur) >= 1200 or w + wc > 250_000):
                chunks.append(("m%d" % nm, cur))
                nm += 1
                cur, w = [], 0
            cur.append(c)
            w += wc
        if cur:
            chunks.append(("m%d" % nm, cur))
        for i, ch in enumerate(vlib.chunks(oob, 16)):
            chunks.append(("o%d" % i, ch))
        # hostile input: per decoder, in several processes each (a damaged heap shows or not depending on
        # where the process happens to be mapped), freed memory poisoned, fixed probe computation at the end
        bydec = {}
        for c in hostile:
            bydec.setdefault(c.cls.split(":")[0], []).append(c)
        for dec, cs in sorted(bydec.items()):
            nch = max(8 if dec == "csv" else 1, (len(cs) + 599) // 600)
            for j in range(nch):
                pc = probe_cases()
                for c in pc:
                    nid += 1
                    c.id = nid
                    c.feat = (dec,)
                cases += pc
                chunks.append(("h_%s_%d" % (dec, j), cs[j::nch] + pc))
        byid = {c.id: c for c in cases + hostile}
        henv = {"CHIBI_VERIF_POISON": "1"}
        t0 = time.time()
        order = sorted(chunks, key=lambda lc: -sum(len(c.line()) for c in lc[1]))      # heavy chunks first
        ran = vlib.parallel(lambda lc: (lc[0], run_chunk(build, sc, lc[0], lc[1], henv if lc[0].startswith("h_") else None)),
                            order, jobs=8)
        chk.cov["driver_seconds"] = round(time.time() - t0, 1)
        chk.cov["driver_processes"] = sum(x[1][1] for x in ran)
        chk.cov["slowest_chunks"] = sorted(((v, k) for k, v in TIMES.items()), reverse=True)[:8]
        # ---- TLC judges: traces are packed into shards of bounded size
        shards, cur, cursize = [], [], 0
        for label, (lines, _) in ran:
            sz = sum(len(x) for x in lines)
            if cur and cursize + sz > 3_000_000:
                shards.append(cur)
                cur, cursize = [], 0
            cur += lines
            cursize += sz
        if cur:
            shards.append(cur)
        t0 = time.time()
        res = vlib.parallel(lambda il: validate(sc, "s%d" % il[0], il[1]), list(enumerate(shards)), jobs=6)
        chk.cov["tlc_seconds"] = round(time.time() - t0, 1)
        accepted = sum(a for a, _, _ in res)
        rejected = {}
        proc_rej = []
        for _, rej, _ in res:
            for i, claims in rej:
                if i == 0:
                    proc_rej.append(claims)
                else:
                    rejected[i] = claims
        # flakiness guard: everything rejected is run and judged a second time
        notrepro = set()
        if rejected:
            per_key = {}
            again = []
            for i in sorted(rejected):
                k = tuple(sorted(key_of(byid[i], cl) for cl in rejected[i]))
                per_key[k] = per_key.get(k, 0) + 1
                if per_key[k] <= 6 or byid[i].group == "hostile" and per_key[k] <= 30:
                    again.append(byid[i])
            again = again[:600]
            lines2, _ = run_chunk(build, sc, "again", again, henv)
            _, rej2, _ = validate(sc, "again", lines2)
            rej2 = dict(rej2)
            for c in again:
                if c.id not in rej2:
                    if c.group != "hostile":
                        raise Broken("case %d (%s %s) rejected once and accepted on a second run: nondeterministic" %
                                     (c.id, c.kind, c.cls))
                    notrepro.add(c.id)
        # ---- the binding is demonstrated on this run's own trace: a corrupted result and a missing result
        # must be rejected by TLC
        selftest(sc, [ln for sh in shards for ln in sh])
        # ---- report
        gen_fail = {i: cl for i, cl in rejected.items() if any(x.startswith("gen:") for x in cl)}
        if gen_fail:
            i = sorted(gen_fail)[0]
            raise Broken("generated input of case %s is not what the specification says (%s): %s" %
                         (i, gen_fail[i], byid[i].line()[:300] if i in byid else "?"))
        by_key = {}
        focused = set()
        for i, claims in rejected.items():
            c = byid[i]
            if c.cls != "mixed":
                for cl in claims:
                    focused.add(key_of(c, cl))
        for claims in proc_rej:                       # a process died between two cases: keyed by what it was running
            by_key.setdefault("process:%s" % ":".join(claims), []).append((0, claims))
        for i, claims in sorted(rejected.items()):
            c = byid[i]
            for cl in claims:
                key = key_of(c, cl)
                if c.cls == "mixed" and c.kind == "json":
                    # label a rejected mixed value by a single-feature case of one of its features that
                    # TLC rejected for the same claim in this run; otherwise it keeps its own key
                    hit = sorted(k for k in focused if k.startswith("json:%s:str:" % cl) and
                                 any(k.startswith("json:%s:str:%s" % (cl, f)) for f in c.feat))
                    if hit:
                        key = hit[0]
                by_key.setdefault(key, []).append((i, claims))
        for key, items in sorted(by_key.items()):
            i, claims = items[0]
            c = byid.get(i)
            content = {"key": key, "rejected_cases_with_this_key": len(items), "claims_failed": claims,
                       "reproduced_on_second_run": i not in notrepro,
                       "case": c.line() if c else None,
                       "how": "./check C19 --replay <this file> runs the case line through harness/scm/codec.scm on a fresh "
                              "build of /repo and lets spec/CodecTrace.tla judge the recorded result"}
            chk.report(key, "%d recorded case(s) rejected by Codec.tla, first: case %d %s" %
                       (len(items), i, (c.line()[:160] if c else claims)),
                       re.sub(r"[^A-Za-z0-9_.-]", "_", key) + ".json", content)
        chk.cov["rejected_cases"] = len(rejected)
        chk.cov["rejection_keys"] = sorted(by_key)
        chk.cov["traces_validated_against_impl"] = accepted
        chk.cov["evaluations"] = len(byid)
        kinds = {}
        for c in byid.values():
            kinds[c.kind] = kinds.get(c.kind, 0) + 1
        chk.cov["cases_by_kind"] = kinds
        chk.cov["distinct_nontrivial"] = len(set((c.kind, c.line().split(" ", 1)[1]) for c in byid.values()
                                                 if not (c.kind in ("b64", "qp", "uri") and len(c.args[0]) == 0)))
        chk.cov["rule"] = ("a case = one input (byte string, code-point string, accessor call, JSON token sequence, CSV table, or hostile "
                           "byte string for one decoder) run on the real library and judged by TLC against Codec.tla; distinct = distinct "
                           "(kind, class, input), non-trivial = input not the empty string")
        if accepted < 1000:
            raise Broken("only %d cases accepted: vacuous run" % accepted)
        for k in ("b64", "b64t", "qp", "qpp", "uri", "utf", "acc", "uv", "int", "hex", "json", "csv", "h"):
            if kinds.get(k, 0) == 0:
                raise Broken("no cases of kind %s" % k)
        seen = set()
        for c in (byid[i] for i in sorted(byid)):
            if c.cls in ("len", "str:astral/u", "struct", "fixed-set:in", "json:targeted", "quote") and c.kind not in seen:
                seen.add(c.kind)
                chk.sample({"kind": c.kind, "cls": c.cls, "case": c.line()[:300],
                            "verdict": "rejected: %s" % rejected[c.id] if c.id in rejected else "accepted"})
        chk.assumptions += [
            "URI unreserved set = RFC 2396 (RFC 3986 unreserved plus ! * ' ( )); hex digits of either case are allowed in %XX",
            "JSON object member order is compared as written (the library keeps it); integers |n| < 2^31 only",
            "CSV: a record consisting of one empty field is not generated (RFC 4180 leaves the empty line open)",
            "float / mini-float accessors are not decided (no integer semantics to state)",
            "integers in the log are produced by the driver with quotient/remainder by 256 (C04's territory)",
        ]
    return chk.finish()


def replay(path):
    """re-run the saved case on a fresh build and let TLC judge it again"""
    d = json.load(open(path))
    print(json.dumps({k: (v if k != "case" else v[:600]) for k, v in d.items()}, indent=1))
    if not d.get("case"):
        return 0
    with vlib.Scratch("c19r") as sc:
        build = vlib.build_repo(sc.sub("build"))
        cf = sc.file("case.txt")
        with open(cf, "w") as f:
            f.write(d["case"] + "\n")
        to = 0
        try:
            p = build.run([DRIVER, cf], timeout=PROC_TIMEOUT, env={"CHIBI_VERIF_POISON": "1"})
            rc, outb = p.returncode, p.stdout
        except subprocess.TimeoutExpired as ex:
            rc, outb, to = -9, ex.stdout or b"", 1
        lines = [expand(ln) for ln in outb.decode("ascii", errors="replace").split("\n") if ln.startswith("{") and ln.endswith("}")]
        lines.append('{"e":"X","id":0,"rc":%d,"to":%d,"grp":"replay"}' % (rc, to))
        for ln in lines:
            print(ln[:1500])
        acc, rej, _ = validate(sc, "replay", lines)
        for i, claims in rej:
            print("REJECTED by Codec.tla: case %d, failed claims %s" % (i, claims))
        if not rej:
            print("accepted by Codec.tla")
        return 1 if rej else 0
