"""C04 -- exact arithmetic is mathematically exact at every magnitude; results are canonical.
   spec/BigNat.tla (digit-level naturals/integers/rationals and the defining relations) is model checked
   against TLC's built-in integers at base 4 (BigNatMC); the boundary lattice is enumerated by TLC from
   Num!Lattice (NumGen); lattice pairs, exact multiples, seeded random integers/rationals, doubles and
   digit strings are run on the real interpreter (harness/scm/numdrv.scm) and every recorded call is
   accepted or rejected by TLC (NumTrace.tla, base 2^10)."""
import os, struct, sys
from fractions import Fraction
from math import gcd
import vlib, numcommon as nc
from numcommon import Case
from vlib import Broken

INT2 = ["+", "-", "*", "/", "quotient", "remainder", "modulo", "floor/", "truncate/", "floor-quotient", "floor-remainder",
        "truncate-quotient", "truncate-remainder", "gcd", "lcm", "=", "<", ">", "<=", ">="]
DIVOPS = ["quotient", "remainder", "modulo", "floor/", "truncate/", "floor-quotient", "floor-remainder",
          "truncate-quotient", "truncate-remainder", "/", "gcd", "lcm"]
RAT2 = ["+", "-", "*", "/", "=", "<", ">", "<=", ">="]
RAT1 = ["neg", "inv", "abs", "numerator", "denominator", "floor", "ceiling", "round", "truncate"]
INT1 = ["neg", "abs", "exact-integer-sqrt", "floor", "round", "numerator", "denominator"]
NEEDS_NONZERO_2ND = set(DIVOPS) - {"gcd", "lcm"}
DIGITS = "0123456789abcdefghijklmnopqrstuvwxyz"


def rnd_int(rng, maxbits):
    """Random integer with interesting word patterns: random bits, runs of ones/zeros in whole 64-bit words."""
    bits = rng.randint(1, maxbits)
    n = rng.getrandbits(bits) | (1 << (bits - 1))
    style = rng.random()
    if style < 0.35:                      # overwrite random whole words with all-ones / zero
        for w in range(0, bits, 64):
            r = rng.random()
            if r < 0.3:
                n |= ((1 << 64) - 1) << w
            elif r < 0.6:
                n &= ~(((1 << 64) - 1) << w)
        n &= (1 << bits) - 1
        n |= 1 << (bits - 1)
    return -n if rng.random() < 0.5 else n


def int_op_ok(op, a, b):
    if op == "lcm" and a == 0 and b == 0:
        return False          # lcm(0,0): R7RS fixes no value; chibi signals divide-by-zero (observation in notes/c04-findings.md)
    return not (op in NEEDS_NONZERO_2ND and b == 0)


def to_radix(n, radix, rng=None):
    if n == 0:
        return "0"
    s = ""
    m = abs(n)
    while m:
        ch = DIGITS[m % radix]
        if rng is not None and rng.random() < 0.3:
            ch = ch.upper()
        s = ch + s
        m //= radix
    return s


def dbl_words(u):
    return [(u >> 48) & 0xFFFF, (u >> 32) & 0xFFFF, (u >> 16) & 0xFFFF, u & 0xFFFF]


def dbl_fraction(u):
    return Fraction(*struct.unpack(">d", struct.pack(">Q", u))[0].as_integer_ratio())


def gen_cases(chk, mags, fixbits, scale):
    rng = chk.rng
    T = chk.thorough
    cases = []
    L = sorted(set(mags) | set(-m for m in mags))
    fx = 1 << fixbits
    core_m = [0, 1, 2, fx - 2, fx - 1, fx, fx + 1, (1 << 63), (1 << 64) - 1, 1 << 64, (1 << 64) + 1, (1 << 127) + 1,
              (1 << 128) - 1, 1 << 128, (1 << 192) - (1 << 64), (1 << 256) - 1, (1 << 256) + (1 << 128) - (1 << 64), 1 << 320]
    core_m = [m for m in core_m if m in set(mags)] + [3]
    core = sorted(set(core_m) | set(-m for m in core_m))

    def add(op, a=(), k=(), s="", tag="", key=None):
        cases.append(Case(op, a, k, s, tag, key))

    # 1. every pair over the core lattice x every binary operation
    for a in core:
        for b in core:
            for op in INT2:
                if int_op_ok(op, a, b):
                    add(op, (a, b), tag="core-pair")
    # 1b. the same calls with operands stored with spare most significant words (bignum length > significant words)
    for c in [c for c in cases if c.tag == "core-pair"][::5]:
        cases.append(Case("pad:" + c.op, c.a, c.k, "", "spare-words"))
    # 2. seeded sample of pairs over the whole lattice (the thorough tier's lattice has every k <= 400)
    npairs = int((200000 if T else 4000) * scale)
    for i in range(npairs):
        a, b = rng.choice(L), rng.choice(L)
        for op in rng.sample(INT2, 2 if T else 3):
            if int_op_ok(op, a, b):
                add(op, (a, b), tag="lattice-pair")
    # every lattice value at least once on each side of * and of a division
    for a in L:
        b = rng.choice(L)
        add("*", (a, b), tag="lattice-cover")
        if a != 0:
            add(rng.choice(DIVOPS), (b, a), tag="lattice-cover")
    # 3. exact multiples and their neighbours
    for i in range(int((30000 if T else 2000) * scale)):
        a, b = rng.choice(L), rng.choice(L)
        if b == 0:
            continue
        p = a * b + rng.choice([0, 0, 1, -1, b - 1 if b > 0 else b + 1])
        op = rng.choice(DIVOPS)
        if int_op_ok(op, p, b):
            add(op, (p, b), tag="multiple")
    # quotients with all-ones / zero words, divisors with high bit patterns (estimate-and-correct loop)
    for i in range(int((30000 if T else 2000) * scale)):
        b = rnd_int(rng, 320)
        q = rng.choice(L) if rng.random() < 0.5 else rnd_int(rng, 256)
        r = rng.choice([0, 1, abs(b) - 1, rng.randrange(abs(b))])
        add(rng.choice(DIVOPS[:9]), (q * b + r, b), tag="div-pattern")
    # 4. seeded random integers
    for i in range(int((80000 if T else 4000) * scale)):
        mb = 4000 if (T and i % 40 == 0) else (1500 if i % 100 == 0 else 400)
        a, b = rnd_int(rng, mb), rnd_int(rng, rng.choice([mb, mb, 64, 130]))
        op = rng.choice(INT2)
        if mb > 400 and op in ("gcd", "lcm"):
            op = "*"
        if int_op_ok(op, a, b):
            add(op, (a, b), tag="random-int")
    if not T:                         # a few large ones in the quick tier
        for i in range(int(10 * scale) + 2):
            a, b = rnd_int(rng, 4000) | (1 << 3500), rnd_int(rng, 2000) | (1 << 1800)
            add(rng.choice(["*", "quotient", "remainder", "+", "-", "floor/"]), (a, b), tag="random-big")
    # 5. unary integer operations over the lattice and random values
    for a in L:
        for op in INT1:
            if op == "exact-integer-sqrt" and a < 0:
                continue
            add(op, (a,), tag="lattice-unary")
    for i in range(int((20000 if T else 1500) * scale)):
        s = abs(rng.choice(L)) if rng.random() < 0.5 else abs(rnd_int(rng, 200))
        add("exact-integer-sqrt", (max(0, s * s + rng.choice([0, 0, -1, 1, 2 * s, 2 * s + 1, rng.randrange(2 * s + 1)])),), tag="sqrt")
    # 6. expt
    for b in [x for x in core if abs(x) < (1 << 130)] + [Fraction(2, 3), Fraction(-3, 2), Fraction(fx, 3), Fraction(-1, fx + 1), Fraction(7, 1 << 64)]:
        for e in ([0, 1, 2, 3, 5, 8, 13, 31, 32, 33, 62, 63, 64, 65] if abs(Fraction(b)) <= 3 else [0, 1, 2, 3, 4, 7]):
            add("expt", (b,), (e,), tag="expt", key=None)
            if b != 0 and (Fraction(b).denominator != 1 or e <= 8):
                add("expt", (b,), (-e,), tag="expt",
                    key="expt:%s:negative-exponent" % nc.rep_class(b, fixbits) if e > 0 else None)
    for i in range(int((6000 if T else 500) * scale)):
        b = rnd_int(rng, rng.choice([8, 20, 62, 64, 70]))
        e = rng.randint(0, max(1, 900 // max(1, abs(b).bit_length())))
        add("expt", (b,), (e,), tag="expt")
    # 7. rationals: lattice-derived and random, every representation pairing
    dens = [2, 3, 5, fx - 1, fx, fx + 1, (1 << 64) - 1, 1 << 64, (1 << 64) + 1, (1 << 128) + 1, 3 << 200]
    def rnd_rat():
        r = rng.random()
        if r < 0.4:
            return Fraction(rng.choice(L), rng.choice(dens))
        if r < 0.6:
            return Fraction(rnd_int(rng, 64), abs(rnd_int(rng, 64)))
        return Fraction(rnd_int(rng, rng.choice([62, 130, 300])), abs(rnd_int(rng, rng.choice([10, 62, 130, 300]))))
    def rnd_any():
        r = rng.random()
        if r < 0.2:
            return Fraction(rng.randint(-1000, 1000))
        if r < 0.35:
            return Fraction(rng.choice(L))
        if r < 0.5:
            return Fraction(rnd_int(rng, 300))
        return rnd_rat()
    for i in range(int((80000 if T else 4000) * scale)):
        x, y = rnd_rat(), rnd_any()
        if rng.random() < 0.5:
            x, y = y, x
        op = rng.choice(RAT2)
        if op == "/" and y == 0:
            continue
        if rng.random() < 0.15:        # operands that cancel: results that must normalise to integers / smaller terms
            y = rng.choice([x, -x, 1 / x if x != 0 else x, x * rng.randint(2, 9), x + rng.randint(-3, 3)])
            if op == "/" and y == 0:
                continue
        add(op, (x, y), tag="rational")
    for i in range(int((40000 if T else 2000) * scale)):
        x = rnd_rat()
        op = rng.choice(RAT1)
        if op == "inv" and x == 0:
            continue
        if op in ("round", "floor", "ceiling", "truncate") and rng.random() < 0.4:   # ties and near-ties
            n = rng.choice(L)
            x = Fraction(2 * n + 1, 2) + rng.choice([0, 0, Fraction(1, rng.choice(dens)), -Fraction(1, rng.choice(dens))])
        add(op, (x,), tag="rational-unary")
    for i in range(int((5000 if T else 400) * scale)):
        x = rnd_rat()
        e = rng.randint(-6, 6)
        if x == 0 and e < 0:
            continue
        add("expt", (x,), (e,), tag="expt-ratio",
            key="expt:ratio:negative-exponent" if e < 0 and x.denominator != 1 else None)
    # 7b. ratios whose parts sit at the fixnum limits (negating the most negative fixnum leaves the fixnum range), and
    #     comparisons whose cross products are fixnums far apart
    limits = [fx - 2, fx - 1, fx, fx + 1, -(fx - 2), -(fx - 1), -fx, -(fx + 1)]
    lim_rats = [Fraction(n, d) for n in limits for d in (3, 5, 7, fx - 1, fx + 1, (1 << 64) + 1)] + \
               [Fraction(m, n) for n in limits for m in (1, -1, 3, -5, 7) if n != 0]
    lim_rats = [q for q in lim_rats if q.denominator != 1]
    small = [Fraction(0), Fraction(1), Fraction(-1), Fraction(1, 3), Fraction(-1, 3), Fraction(2, 5), Fraction(-7, 2), Fraction(1, 7)]
    for q in lim_rats:
        for op in RAT1:
            add(op, (q,), tag="limit-ratio")
        for y in small + [q, -q, rng.choice(lim_rats)]:
            for op in rng.sample(RAT2, 4 if not T else 9):
                for (u, v) in ((q, y), (y, q)):
                    if not (op == "/" and v == 0):
                        add(op, (u, v), tag="limit-ratio")
    for i in range(int((20000 if T else 800) * scale)):
        # n1/d1 ? n2/d2 with n1*d2 and n2*d1 both fixnums, of opposite sign and large
        d1, d2 = rng.choice([2, 3, 5, 7, 9, 11]), rng.choice([1, 1, 2, 3, 5, 7])
        n1 = rng.randrange(fx // (2 * d2), fx // d2) * rng.choice([1, -1])
        n2 = rng.randrange(fx // (2 * d1), fx // d1) * (-1 if n1 > 0 else 1) * rng.choice([1, 1, 1, -1])
        x, y = Fraction(n1, d1), Fraction(n2, d2)
        if rng.random() < 0.5:
            x, y = y, x
        add(rng.choice(["=", "<", ">", "<=", ">=", "-", "+"]), (x, y), tag="cross-product")
    # 8. two routes to one value: eqv?
    for i in range(int((20000 if T else 1500) * scale)):
        if rng.random() < 0.5:
            x, y = rng.choice(L), rng.choice(L)
            z = rng.choice(L)
            w = z - (x + y) + rng.choice([0, 0, 0, 1])
            add("eqv+-", (x, y, z, w), tag="eqv")
        else:
            x, y = rnd_any(), rnd_any()
            w = rnd_any()
            if w == 0:
                continue
            z = x * y * w + rng.choice([0, 0, 0, 1])
            add("eqv*/", (x, y, z, w), tag="eqv")
    # 8b. an operation leaves its operands unchanged (operand objects are printed again after the call)
    keepops = ["+", "-", "*", "/", "quotient", "remainder", "modulo", "gcd", "lcm", "floor-quotient"]
    for i in range(int((40000 if T else 1500) * scale)):
        x, y = (rng.choice(L), rng.choice(L)) if rng.random() < 0.6 else (rnd_any(), rnd_any())
        ops_ok = keepops if (x.denominator == 1 and y.denominator == 1) else keepops[:4]
        op = rng.choice(ops_ok)
        if y == 0 and op not in ("+", "-", "*", "gcd") or (op == "lcm" and x == 0 and y == 0):
            continue
        x, y = Fraction(x), Fraction(y)
        if x.denominator == (1 << fixbits) or y.denominator == (1 << fixbits):
            continue                   # lowest-terms ratios with denominator 2^fixbits cannot be read back reliably (finding ratio:denominator)
        add("keep", (x, y), (), op, tag="keep")
    for x in core:                      # deterministic part: core lattice x a few divisors of either sign
        for y in (3, -3, fx + 1, -(fx + 1), -((1 << 64) + 1), (1 << 128) - 1, -((1 << 128) - 1)):
            for op in ("/", "floor-quotient", "*", "remainder"):
                add("keep", (x, y), (), op, tag="keep")
    add("<", (1, Fraction(-(fx - 1), 2)), tag="cross-product")
    add(">", (-1, Fraction(1, fx - 1)), tag="cross-product")
    # 8c. sparse words (see numcommon): words empty in one half / byte / bit position, both signs; sparse x sparse,
    #     sparse x dense, sparse x fixnum, neighbours differing in one sub-word bit, exact multiples; fixed extremal
    #     shapes plus a seeded slice in the quick tier, every two-term sum / difference as well in the thorough tier
    SF = nc.sparse_fixed()
    SFs = [v for m in SF for v in (m, -m)]
    SRs = [m * rng.choice((1, -1)) for m in nc.sparse_random(rng, int((3000 if T else 300) * scale) + 20)]
    SPs = [v for m in (nc.sparse_pairs() if T else []) for v in (m, -m)]
    spos = nc.sparse_positions(5)
    sfix = [1 << 32, (1 << 32) - 1, -(1 << 32), 1 << 31, -(1 << 31), 0xFFFF0000, -0xFFFF0000, (1 << 61) + (1 << 31), -((1 << 61) + (1 << 31)),
            (1 << 62) - (1 << 32), -(1 << 62), (1 << 32) + 1, 3, -1, 0xFF00]
    pool = SFs + SRs + SPs
    for i in range(int((80000 if T else 6000) * scale)):
        a = rng.choice(SFs) if (rng.random() < 0.5 or not SPs) else rng.choice(pool)
        r = rng.random()
        if r < 0.25:
            b = rng.choice(pool)
        elif r < 0.45:
            b = rnd_int(rng, rng.choice([64, 128, 200, 320]))
        elif r < 0.6:
            b = rng.choice(sfix)
        elif r < 0.8:                                   # the same number except for one bit at a sub-word position
            b = a + rng.choice((1, -1)) * (1 << rng.choice(spos))
        else:                                           # a = q*b + r with sparse q and b
            b = rng.choice(SFs + sfix)
            q = rng.choice(SFs + sfix)
            if abs(q).bit_length() + abs(b).bit_length() > 520:
                q = rng.choice(sfix)
            a = q * b + rng.choice([0, 0, 1, -1, (abs(b) - 1), 1 << 32, -(1 << 32)])
        if rng.random() < 0.4:
            a, b = b, a
        op = rng.choice(INT2)
        if int_op_ok(op, a, b):
            add(op, (a, b), tag="sparse-pair")
    for a in (SFs if T else SFs[::3]):
        add(rng.choice(["neg", "abs"]), (a,), tag="sparse-unary")
        s2 = abs(a)
        if s2.bit_length() <= 330:
            add("exact-integer-sqrt", (s2 * s2 + rng.choice([0, 0, -1, 1, 2 * s2, 1 << 32 if s2 > (1 << 32) else 0]),), tag="sparse-sqrt")
            add("exact-integer-sqrt", (s2,), tag="sparse-sqrt")
        radix = rng.choice([2, 8, 10, 16, 32])
        add("number->string", (a,), (radix,), tag="sparse-text")
        if radix <= 16:
            add("string->number", (), (radix,), ("-" if a < 0 else "") + to_radix(a, radix), tag="sparse-text",
                key="string->number:int:%s" % nc.rep_class(a, fixbits))
        if abs(a).bit_length() - (abs(a) & -abs(a)).bit_length() < 53 and abs(a).bit_length() < 1000:
            add("inexact", (a,), tag="sparse-double", key="inexact:%s" % nc.rep_class(a, fixbits))
        add("expt", (a,), (rng.choice([2, 3]),), tag="sparse-expt") if abs(a).bit_length() <= 200 else None
    for c in [c for c in cases if c.tag == "sparse-pair"][::8]:
        cases.append(Case("pad:" + c.op, c.a, c.k, "", "spare-words"))
        if c.op in ("+", "-", "*", "/", "quotient", "remainder", "modulo", "gcd", "lcm", "floor-quotient") and c.a[1] != 0:
            cases.append(Case("keep", c.a, (), c.op, "keep"))
    # 9. exact <-> inexact of representable values
    dbls = []
    for e in [0, 1, 2, 1022, 1023, 1024, 1074, 1075, 1076, 1023 + 52, 1023 + 53, 1023 + 61, 1023 + 62, 1023 + 63, 1023 + 64, 1023 + 127,
              2045, 2046, 500, 900, 1500]:
        for frac in [0, 1, (1 << 52) - 1, 1 << 51, rng.getrandbits(52), rng.getrandbits(52) & ~((1 << 30) - 1)]:
            for sgn in (0, 1):
                dbls.append((sgn << 63) | (e << 52) | frac)
    for i in range(int((30000 if T else 1000) * scale)):
        e = rng.choice([rng.randint(0, 2046), rng.randint(1000, 1100), rng.randint(0, 60)])
        dbls.append((rng.getrandbits(1) << 63) | (e << 52) | (rng.getrandbits(52) if rng.random() < 0.7 else rng.getrandbits(52) & ~((1 << rng.randint(1, 52)) - 1)))
    for u in dbls:
        if u & ((1 << 63) - 1) == 0 and u >> 63:
            continue                                     # -0.0: (inexact 0) is +0.0; sign of zero is not an exact-arithmetic fact
        q = dbl_fraction(u)
        kind = "subnormal" if (u >> 52) & 2047 == 0 else ("integer" if q.denominator == 1 else "fraction")
        if q == fx:
            kind = "integer=2^%d" % fixbits               # the first integer that is not a fixnum
        add("exact", (), dbl_words(u), tag="double", key="exact:double-%s" % kind)
        add("inexact", (q,), tag="double",
            key="inexact:ratio:denominator>=2^1024" if q.denominator >= (1 << 1024) else "inexact:%s" % nc.rep_class(q, fixbits))
    # 10. number->string / string->number in every radix
    for radix in range(2, 37):
        vals = [0, 1, -1, radix - 1, radix, -radix, radix ** 2 - 1, fx - 1, fx, -fx, -fx - 1, (1 << 64) - 1, 1 << 64, -(1 << 128), radix ** 30, radix ** 40 - 1]
        vals += [rng.choice(L) for _ in range(3 if not T else 12)] + [rnd_int(rng, 400) for _ in range(3 if not T else 12)]
        rats = [rnd_rat() for _ in range(2 if not T else 8)]
        if radix != 10:                 # ratio texts whose numerator needs a bignum while reading
            for den in ("10", "11", "2"):
                if all(DIGITS.index(ch) < radix for ch in den):
                    add("string->number", (), (radix,), "1" + "0" * 70 + "/" + den, tag="text",
                        key="string->number:bignum-numerator-ratio:radix-not-10")
        for v in vals + rats:
            v = Fraction(v)
            add("number->string", (v,), (radix,), tag="text")
            sg = "-" if v < 0 else rng.choice(["", "", "+"])
            body = to_radix(v.numerator, radix, rng)
            if rng.random() < 0.2:
                body = "0" * rng.randint(1, 3) + body
            mul = 1
            if v.denominator != 1:
                mul = rng.choice([1, 1, 2, radix, 6])           # not necessarily in lowest terms
                body = to_radix(v.numerator * mul, radix, rng) + "/" + to_radix(v.denominator * mul, radix, rng)
            s = sg + body
            if radix == 10 and any(ch in s for ch in "eE"):
                continue
            if s.lower() in ("+i", "-i"):
                continue                      # the imaginary unit in Scheme's number syntax: not a digit string in any radix
            big = any(DIGITS.index(ch.lower()) >= 16 for ch in s if ch.lower() in DIGITS)
            if big:
                key = "string->number:digit>f"
            elif "/" in s and radix != 10 and abs(v.numerator * mul) >= fx:
                key = "string->number:bignum-numerator-ratio:radix-not-10"
            else:
                key = "string->number:%s:%s" % ("ratio" if "/" in s else "int", nc.rep_class(v.numerator, fixbits))
            add("string->number", (), (radix,), s, tag="text", key=key)
    return nc.number_cases(cases)


def run():
    chk = vlib.Check("C04")
    import shutil
    shutil.rmtree(chk.replay_dir, ignore_errors=True)        # replay artefacts of earlier runs of this property
    scale = float(os.environ.get("VERIF_SCALE", "1"))
    with vlib.Scratch("c04") as sc:
        build = vlib.build_repo(sc.sub("build"))
        nc.build_numprobe(build, sc)
        # ---- the specification checks itself against TLC's integers (base 4)
        r = vlib.run_tlc("BigNatMC.tla", "BigNatMC_T.cfg" if chk.thorough else "BigNatMC.cfg", sc.path,
                         workers=min(16, vlib.NCPU) if chk.thorough else nc.JOBS, timeout=1500, heap="4g")
        vlib.require_tlc_ok(r, "BigNatMC")
        if r.violated:
            raise Broken("BigNat.tla disagrees with TLC's integers: %s\n%s" % (r.violated, "\n".join(r.trace[-1:])))
        if r.distinct < 1000:
            raise Broken("BigNatMC explored only %d states" % r.distinct)
        chk.add_mc("BigNatMC", r)
        chk.cov.setdefault("seconds", {})["build"] = round(build.seconds, 1)
        chk.cov["seconds"]["mc"] = round(r.seconds, 1)
        chk.cov["exhaustive"] = True
        # ---- lattice from the specification
        mags = nc.lattice_from_spec(sc, "NumGen_T.cfg" if chk.thorough else "NumGen.cfg")
        chk.cov["lattice_magnitudes"] = len(mags)
        # ---- run on the implementation
        probe = nc.run_driver(build, sc, nc.number_cases([Case("+", (1, 1))]), "probe")
        fixbits = probe[1]
        import time
        t0 = time.time()
        cases = gen_cases(chk, mags, fixbits, scale)
        chk.cov["seconds"]["generate"] = round(time.time() - t0, 1)
        rejected, outs, events, fixbits, cfg = nc.process(
            chk, sc, build, "NumTrace.tla", lambda fb: nc.write_cfg(sc, "NumTrace_run.cfg", {"FixBits": fb}), cases, "c04",
            timeout=1700 if chk.thorough else 600)
        byid = {c.id: c for c in cases}
        nc.confirm_and_report(chk, sc, "NumTrace.tla", cfg, byid, events, outs, rejected, "c04", fixbits)
        nc.binding_selftest(chk, sc, "NumTrace.tla", cfg, events, rejected, "c04")
        acc = [c for c in cases if c.id not in rejected]
        chk.cov["traces_validated_against_impl"] = len(acc)
        chk.cov["evaluations"] = len(cases)
        chk.cov["rejected_cases"] = len(rejected)
        classes = set((c.op, tuple(nc.rep_class(x, fixbits) + ("-" if x < 0 else "+") for x in c.a),
                       tuple(min(abs(x.numerator).bit_length() // 64, 8) for x in c.a), tuple(c.k[:1])) for c in acc)
        chk.cov["distinct_nontrivial"] = len(classes)
        chk.cov["rule"] = ("a case = one call (op, operands) executed on the built interpreter and judged by TLC; distinct = distinct "
                           "(operation, representation+sign of each operand, operand size in 64-bit words, first small parameter) classes "
                           "among accepted cases; operands come from the TLC-enumerated boundary lattice (all pairs over the core lattice, "
                           "sampled pairs over the rest in the quick tier), exact multiples +-1, seeded random integers/rationals/doubles/digit strings")
        byop = {}
        for c in cases:
            byop[c.op] = byop.get(c.op, 0) + 1
        chk.cov["cases_per_operation"] = byop
        chk.cov["fixnum_value_bits"] = fixbits
        if not any(c.op == "keep" for c in acc):
            raise Broken("vacuous: no accepted operands-unchanged case")
        sampled = [c for c in cases if c.id in outs and c.id not in rejected]
        for c in sampled[1:: max(1, len(sampled) // 5)]:
            chk.sample({"call": c.scheme(), "implementation": outs.get(c.id), "tag": c.tag})
        missing = [op for op in INT2 + RAT1 + ["expt", "exact-integer-sqrt", "exact", "inexact", "number->string", "string->number", "eqv+-", "eqv*/"]
                   if not any(c.op == op for c in acc)]
        if missing:
            raise Broken("vacuous: no accepted case for operations %s" % missing)
        chk.assumptions += ["operands reach the implementation as hexadecimal literals and results come back through number->string radix 16 "
                            "(both are themselves part of the property; an error there shows up as a rejection)",
                            "certificates (quotients, Bezout coefficients) come from untrusted glue and are checked by TLC",
                            "IEEE doubles are moved in/out as 16-bit words by a small foreign helper (harness/num/verif/numprobe.c)",
                            "TLC, the JSON reader and the Scheme driver's printing of what the implementation returned are trusted"]
    return chk.finish()


def replay(path):
    return nc.replay(path, "C04")
