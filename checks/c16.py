"""C16 -- weak references and finalizers track reachability exactly.
   MC of Heap.tla (ephemeron + finalizer configs) and Fd.tla; TLC-generated ephemeron/finalizer-heavy
   behaviours replayed on the real collector (micro heap) and validated by HeapTrace.tla (broken iff key
   unreachable, value retained while key alive, finalizer exactly once for exactly the dead objects);
   port / descriptor histories of the real interpreter validated by FdTrace.tla (hook H7)."""
import os, subprocess, sys
import vlib, heapcommon as hc
from vlib import Broken

FDPROG = os.path.join(vlib.VERIF, "harness", "scm", "fdprog.scm")


def fd_run(build, sc, seed, steps, label, ulimit=None, sched=None):
    t = sc.file("fd_%s.ndjson" % label)
    if os.path.exists(t):
        os.remove(t)
    cmd = " ".join(build.cmd(FDPROG, str(seed), str(steps)))
    if ulimit:
        cmd = "ulimit -n %d; %s" % (ulimit, cmd)
    env = {"CHIBI_VERIF_TRACE": t, "CHIBI_VERIF_WALK": "0"}
    if sched:
        env["CHIBI_VERIF_GC"] = sched
    try:
        p = subprocess.run(["bash", "-c", cmd], env=build.env(env), cwd=vlib.REPO, stdout=subprocess.PIPE, stderr=subprocess.PIPE, timeout=300)
        rc = p.returncode
    except subprocess.TimeoutExpired:
        rc = -9
    with open(t, "a") as f:
        f.write('{"e":"Exit","rc":%d}\n' % rc)
    return dict(label=label, seed=seed, steps=steps, rc=rc, trace=t, ulimit=ulimit, sched=sched)


def run():
    chk = vlib.Check("C16")
    with vlib.Scratch("c16") as sc:
        build = vlib.build_repo(sc.sub("build"))
        vlib.build_probe(build, sc)
        # ---- MC
        hc.mc(chk, sc, "B")
        hc.mc(chk, sc, "D")
        r = vlib.run_tlc("Fd.tla", "FdMC.cfg", sc.path, timeout=300)
        vlib.require_tlc_ok(r, "FdMC")
        if r.violated:
            raise Broken("Fd.tla violates its own invariant %s" % r.violated)
        chk.add_mc("FdMC", r)
        # ---- micro heap with ephemerons and finalizable objects
        n = 60 if chk.thorough else 14
        hists = hc.gen_behaviours(sc, "HeapGenWeak.cfg", num=n, depth=300, seed=chk.seed + 3)
        weak = [h for h in hists if any(a[0] == "Alloc" and a[2] in ("eph", "fin") for a in h)]
        a = hc.micro_campaign(chk, sc, build, weak[:4000], 12, 36, "weak")
        # deterministic family: ephemeron chains in every allocation order, with and without a second segment
        chains = hc.chain_scripts()
        if not chk.thorough:
            chk.rng.shuffle(chains)
            chains = chains[:120]
        a += hc.micro_campaign(chk, sc, build, chains, 8, 64, "chain", batch=60)
        chk.cov["ephemeron_chain_scripts"] = len(chains)
        chk.cov["micro_behaviours"] = a
        chk.cov["micro_behaviours_with_broken_or_finalized"] = sum(
            1 for h in weak if any(x[0] == "ObserveFin" for x in h))
        # ---- descriptors of the real interpreter
        jobs = []
        nruns = 40 if chk.thorough else 10
        for i in range(nruns):
            jobs.append((chk.seed * 1000 + i, 120 if not chk.thorough else 400, "s%d" % i, None, None))
        # collections forced at arbitrary points of the driver as well
        for i in range(nruns // 2):
            jobs.append((chk.seed * 1000 + 500 + i, 80, "g%d" % i, None, "every=%d,phase=%d" % (97 + 10 * i, i)))
        jobs.append((chk.seed, -600 if not chk.thorough else -5000, "exhaust", 48, None))
        runs = vlib.parallel(lambda j: fd_run(build, sc, j[0], j[1], j[2], j[3], j[4]), jobs)
        # a descriptor the interpreter only borrows (stderr wrapped by the embedding API) must never be closed by a finalizer
        bexe = vlib.compile_c(build, os.path.join(vlib.VERIF, "harness", "c", "borrowfd.c"), sc.file("borrowfd"))
        btrace = sc.file("fd_borrowed.ndjson")
        bp = subprocess.run([bexe], env=build.env({"CHIBI_VERIF_TRACE": btrace}), cwd=vlib.REPO, stdout=subprocess.PIPE, stderr=subprocess.PIPE, timeout=300)
        runs.append({"label": "borrowed", "trace": btrace, "seed": 0, "steps": 3, "rc": bp.returncode})

        def val(run):
            r = vlib.run_tlc("FdTrace.tla", "FdTrace.cfg", sc.path, env={"TRACE": run["trace"]}, workers=1, timeout=300, heap="2g")
            return run, r
        nclose = 0
        for run, r in vlib.parallel(val, runs, jobs=8):
            if r.error and "Postcondition" not in r.error:
                raise Broken("FdTrace failed: %s" % r.error[:1500])
            evs = vlib.read_ndjson(run["trace"])
            if r.ok:
                chk.cov["traces_validated_against_impl"] += 1
                nclose += sum(1 for e in evs if e.get("e") in ("Close", "PortClose") and e.get("gc") == 1)
                if run["label"] == "s0":
                    chk.sample({"driver": "fdprog.scm seed=%d steps=%d" % (run["seed"], run["steps"]),
                                "events": [e for e in evs if e.get("e") not in ("Gc", "Grow")][40:52]})
                continue
            ra = hc.rejected_at(r)
            idx = (ra[0] - 1) if ra else max(0, r.depth - 2)
            ev = evs[idx] if idx < len(evs) else {}
            key = "fd:%s:%s" % (r.violated or "rejected", ev.get("e"))
            chk.report(key, "descriptor history rejected by Fd.tla at event %d %s (run %s)" % (idx + 1, ev, run["label"]),
                       "fd_%s.json" % run["label"], {"key": key, "run": {k: v for k, v in run.items() if k != "trace"},
                                                     "event": ev, "before": evs[max(0, idx - 6):idx], "tlc": r.summary()})
        chk.cov["descriptors_closed_by_finalizers"] = nclose
        if nclose < 20:
            raise Broken("fd driver produced only %d finalizer closes" % nclose)
        chk.cov["evaluations"] = len(runs) + a
        chk.cov["distinct_nontrivial"] = chk.cov["traces_validated_against_impl"]
        chk.cov["rule"] = "a case = one TLC-generated micro-heap behaviour containing ephemerons/finalizable objects, or one seeded port/descriptor history of the interpreter"
        chk.assumptions += ["'unreachable' in the driver = slot cleared and VM temporaries scrubbed; /proc/self/fd is the ground truth for open descriptors",
                            "collect-and-retry on EMFILE is claimed for open-input-file/open-output-file ports only (what eval.c implements)"]
    return chk.finish()


def replay(path):
    print(open(path).read()[:6000])
    return 0
