"""C15 -- equal?, eqv? and hashing are coherent; hash tables behave as finite maps.

   spec/Equiv.tla  : abstract values as rooted graphs, SameGraph (= equality of the unfoldings), the rules an
                     observation of eq?/eqv?/equal?/hash must satisfy.  EquivMC.tla model-checks the definitions.
   spec/Map.tla    : finite map + association list, SRFI 69 / SRFI 125 operations.  MapMC.cfg: 3 keys x 2 values.
   Conformance     : (1) route pairs of every term class are evaluated by the real interpreter
                     (harness/scm/c15_equiv.scm) and every recorded answer is accepted or rejected by TLC with
                     EquivTrace.tla; (2) seeded operation histories (<= 500 ops, several resizes, keys inserted
                     via one route and looked up via another) run on real SRFI 69 and SRFI 125 tables
                     (harness/scm/c15_map.scm) and are validated by TLC with MapTrace.tla.
   Python generates cases, runs the tools and converts formats; every verdict is TLC's."""
import collections, json, os, random, re, subprocess, sys, threading, time
import vlib
from vlib import Broken
import c15terms

SCM = os.path.join(vlib.VERIF, "harness", "scm")
EQUIV_IMPORT = ("(import (scheme base) (scheme char) (scheme inexact) (scheme complex) (scheme read) (scheme write) (scheme cxr)\n"
                "        (srfi 69) (srfi 128) (srfi 151) (prefix (only (chibi) equal?) prim:) (only (chibi) fixnum?) (only (chibi ast) object-size))\n")
COMMON_LIBS = "(scheme base) (scheme char) (scheme inexact) (scheme complex) (scheme read) (scheme write) (scheme cxr) (srfi 151)"
FE = {
    "69": ("(import %s (srfi 69) (prefix (only (chibi) equal?) prim:))\n" % COMMON_LIBS +
           """(define (fe-make cfg)
  (cond ((equal? cfg "equal-default") (make-hash-table))
        ((equal? cfg "equal-r7") (make-hash-table equal?))
        ((equal? cfg "equal-prim") (make-hash-table prim:equal?))
        ((equal? cfg "equal-hash") (make-hash-table equal? hash))
        ((equal? cfg "eqv") (make-hash-table eqv?))
        ((equal? cfg "eqv-hash") (make-hash-table eqv? hash))
        ((equal? cfg "eq") (make-hash-table eq?))
        ((equal? cfg "eq-identity") (make-hash-table eq? hash-by-identity))
        ((equal? cfg "string") (make-hash-table string=?))
        ((equal? cfg "string-sh") (make-hash-table string=? string-hash))
        (else (error "unknown table configuration" cfg))))
(define (fe-copy t) (hash-table-copy t))
(define (fe-fold t kons knil) (hash-table-fold t kons knil))
(define (fe-merge! a b) (hash-table-merge! a b))
(define (fe-clear! t) (error "not in SRFI 69"))
(define (fe-intern! t k th) (error "not in SRFI 69"))
(define (fe-pop! t) (error "not in SRFI 69"))
(define (fe-empty? t) (error "not in SRFI 69"))
(define (fe-count t p) (error "not in SRFI 69"))
"""),
    "125": ("(import %s (srfi 125) (srfi 128) (prefix (only (chibi) equal?) prim:))\n" % COMMON_LIBS +
            """(define (fe-make cfg)
  (cond ((equal? cfg "equal-cmp") (make-hash-table (make-equal-comparator)))
        ((equal? cfg "eqv-cmp") (make-hash-table (make-eqv-comparator)))
        ((equal? cfg "eq-cmp") (make-hash-table (make-eq-comparator)))
        ((equal? cfg "string-cmp") (make-hash-table string-comparator))
        ((equal? cfg "equal-r7") (make-hash-table equal?))
        ((equal? cfg "equal-prim") (make-hash-table prim:equal?))
        ((equal? cfg "equal-hash") (make-hash-table equal? hash))
        ((equal? cfg "eqv") (make-hash-table eqv?))
        ((equal? cfg "eq") (make-hash-table eq?))
        ((equal? cfg "string-sh") (make-hash-table string=? string-hash))
        (else (error "unknown table configuration" cfg))))
(define (fe-copy t) (hash-table-copy t #t))
(define (fe-fold t kons knil) (hash-table-fold kons knil t))
(define (fe-merge! a b) (hash-table-union! a b))
(define (fe-clear! t) (hash-table-clear! t))
(define (fe-intern! t k th) (hash-table-intern! t k th))
(define (fe-pop! t) (hash-table-pop! t))
(define (fe-empty? t) (hash-table-empty? t))
(define (fe-count t p) (hash-table-count p t))
"""),
}
CFGS = {"69": [("equal-default", "equal"), ("equal-r7", "equal"), ("equal-prim", "equal"), ("equal-hash", "equal"), ("eqv", "eqv"), ("eqv-hash", "eqv"),
               ("eq", "eq"), ("eq-identity", "eq"), ("string", "string"), ("string-sh", "string")],
        "125": [("equal-cmp", "equal"), ("eqv-cmp", "eqv"), ("eq-cmp", "eq"), ("string-cmp", "string"), ("equal-r7", "equal"), ("equal-prim", "equal"),
                ("equal-hash", "equal"), ("eqv", "eqv"), ("eq", "eq"), ("string-sh", "string")]}
# which equal? a table configuration ends up with: the primitive of (chibi) (C fast path of SRFI 69) or the
# cycle-aware one of (scheme base) (general procedure path); only used to name findings on deeply nested keys
PRED_IMPL = {("69", "equal-default"): "prim", ("69", "equal-prim"): "prim", ("69", "equal-r7"): "r7", ("69", "equal-hash"): "r7",
             ("125", "equal-cmp"): "r7", ("125", "equal-r7"): "r7", ("125", "equal-hash"): "r7", ("125", "equal-prim"): "prim"}
VALUE_CLS = {"int", "ratio", "cplx", "flo", "char", "sym", "bool", "null"}
IDENT_CLS = {"sym", "bool", "null"}
LOCATED_CLS = {"str", "bv", "pair", "vec"}
MAP_ACTIONS = ["Make", "Set", "Delete", "Update", "UpdateErr", "UpdateDefault", "Intern", "Pop", "Clear", "Copy", "Merge", "Query"]


def read(path):
    with open(path) as f:
        return f.read()


def term_events(cat, terms):
    """Term declarations for a trace: (events, local id map).  Line k of the trace declares term k."""
    order = cat.closure(terms)
    local = {t: i + 1 for i, t in enumerate(order)}
    evs = []
    for t in order:
        ev = {"e": "Term", "id": local[t], "cls": t.cls, "kind": t.kind, "nan": t.nan, "sym": 0, "g": cat.graph_json(t, local)}
        if t.nest is not None:      # symbolic deep term (Equiv!NestGraph / SameNest)
            n = t.nest
            ev.update(sym=1, nest={"shape": n["shape"], "k": n["k"], "leaf": local[n["leaf"]], "aux": [local[a] for a in n["aux"]]})
        evs.append(ev)
    return evs, local


def run_chibi(build, prog_path, out_path, timeout):
    """Run a generated driver program; its stdout (ndjson) goes to out_path.  Returns the exit code (-9 = timeout)."""
    with open(out_path, "wb") as out:
        try:
            p = subprocess.run(build.cmd(prog_path), env=build.env(), cwd=vlib.REPO, stdout=out, stderr=subprocess.PIPE, timeout=timeout)
            return p.returncode, p.stderr.decode(errors="replace")[-800:]
        except subprocess.TimeoutExpired:
            return -9, "timeout after %ds" % timeout


def assemble(trace_path, term_evs, out_path, rc):
    """Term declarations + what the driver wrote + Exit.  A line that is not a JSON object with an "e" field
    (the process died while writing) becomes a Garbled event, for which no trace specification has an action."""
    with open(trace_path, "w") as f:
        for ev in term_evs:
            f.write(json.dumps(ev, separators=(",", ":")) + "\n")
        with open(out_path, errors="replace") as o:
            for line in o:
                line = line.strip()
                if not line:
                    continue
                try:
                    ok = isinstance(json.loads(line).get("e"), str)
                except (ValueError, AttributeError):
                    ok = False
                f.write((line if ok else json.dumps({"e": "Garbled", "raw": line[:200]})) + "\n")
        f.write('{"e":"Exit","rc":%d}\n' % rc)


def rejected_at(r):
    m = re.search(r'"TRACE_REJECTED_AT", (\d+), (\d+)', r.out)
    return (int(m.group(1)), int(m.group(2))) if m else None


# =====================================================================================================
# Equiv half
# =====================================================================================================
def pick_routes(t, rng, limit):
    idx = list(range(len(t.routes)))
    if len(idx) <= limit:
        return idx
    special = [i for i in idx if t.routes[i].layout not in ("plain", "literal")]
    rng.shuffle(special)
    chosen = [0] + special[:max(2, limit // 2)]
    rest = [i for i in idx if i not in chosen]
    rng.shuffle(rest)
    chosen += rest[:max(0, limit - len(chosen))]
    return sorted(set(chosen))


def equiv_batches(cat, chk):
    rng = chk.rng
    limit = 99 if chk.thorough else 6
    batches = []

    def batch(members, bg=0, kind=""):
        batches.append({"id": len(batches) + 1, "bg": bg, "members": members, "kind": kind})
    for g, terms in cat.groups.items():
        if g == "big":
            continue
        for t in terms:
            mem = [(t, i) for i in pick_routes(t, rng, limit)]
            others = list(t.near)
            pool = [u for u in terms if u is not t and u not in others]
            if pool:
                others.append(rng.choice(pool))
            for u in others[:5]:
                mem.append((u, 0))
                if len(u.routes) > 1:
                    mem.append((u, rng.randrange(1, len(u.routes))))
            seen, uniq = set(), []
            for m in mem:
                if (m[0].id, m[1]) not in seen:
                    seen.add((m[0].id, m[1]))
                    uniq.append(m)
            batch(uniq, 0, "routes:" + g)
    # values of different classes against each other
    allt = [t for g, ts in cat.groups.items() if g != "big" for t in ts]
    for _ in range(200 if chk.thorough else 12):
        mem = []
        for t in rng.sample(allt, 9):
            mem.append((t, rng.randrange(len(t.routes))))
        batch(mem, 0, "cross-class")
    # long and deep structures
    batch([(t, i) for t in cat.big_terms for i in range(len(t.routes))], 0, "long-deep")
    batch([(t, i) for t in cat.wide_terms for i in range(len(t.routes))], 0, "wide")
    # deeply nested data around every internal limit of the implementation (recursion depth 10000 of the C
    # comparison, node bound 10000 of the fast path of (scheme base) equal?, and multiples): identical copies by
    # different builders, the same depth with another innermost leaf, one level deeper
    la, lb = cat.sym("a"), cat.sym("b")
    if chk.thorough:
        plan = [(s, d) for s in ("lt", "vf") for d in (9990, 9999, 10000, 10001, 10002, 10010, 19999, 20000, 20001, 49999, 50001, 99999, 100000, 100001, 150000)]
        plan += [("car", d) for d in (9999, 10001, 20001, 100001)]
    else:
        plan = [("lt", 9999), ("lt", 10002), ("lt", 20000), ("vf", 10002), ("vf", 20000), ("car", 10002),
                ("lt", 20004), ("vf", 25000), ("lt", 31000)]      # beyond two and three times the recursion limit (the deferred comparisons are themselves deferred)
    for s, d in plan:
        A, B_, C = cat.deep(s, d, la), cat.deep(s, d, lb), cat.deep(s, d + 1, la)
        mem = [(A, 0), (A, 1 + (d % 2)), (B_, 0), (C, 1)]
        if d <= 20001:
            mem.append((cat.deep(s, d - 1, lb), 0))
        batches.append({"id": len(batches) + 1, "bg": 0, "members": mem, "kind": "deep", "deep": d})
    # small nests: the symbolic declaration against the same value declared as a graph
    small = [(cat.deep("lt", 60, la), 0), (cat.deep("lt", 60, la), 2), (cat.nest_graph_60, 0), (cat.nest_graph_60, 1), (cat.deep("lt", 60, lb), 0),
             (cat.deep("lt", 59, la), 0), (cat.deep("vf", 3, la), 0), (cat.deep("vf", 3, la), 1), (cat.deep("car", 3, la), 0), (cat.deep("car", 3, la), 1),
             (cat.deep("lt", 3, la), 0), (cat.compound(("list", [("list", [("list", [la, cat.int_(1)], None), cat.int_(1)], None), cat.int_(1)], None)), 0)]
    batch(small, 0, "deep-small")
    # cyclic data: every computation announced by Begin
    cyc = [(t, i) for t in cat.cyclic_terms for i in range(len(t.routes))] + [(t, 0) for t in cat.cyclic_contrast]
    lists = [m for m in cyc if m[0].cls == "pair" or m[0].nodes is None]
    vecs = [m for m in cyc if m[0].cls == "vec"] + [m for m in cyc if m[0].kind in ("cyclic-list",)][:4]
    batch(lists, 1, "cyclic")
    batch(vecs, 1, "cyclic")
    return batches


def equiv_program(cat, batches, local, inst0):
    """Scheme text of the run-batch forms; returns (text, instance table {inst id: (term, route index)})."""
    out, table = [], {}
    n = inst0
    for b in batches:
        forms = []
        for t, ri in b["members"]:
            n += 1
            r = t.routes[ri]
            table[n] = (t, ri, b["id"])
            forms.append("(make-inst %d %d %d %d (lambda () %s))" % (n, local[t], ri, r.fresh, r.expr))
        out.append("(run-batch %d %d (list\n  %s))\n" % (b["id"], b["bg"], "\n  ".join(forms)))
    return "".join(out), table


def describe(t):
    if t.nest is not None:
        return "%s Nest(%s, %d, %s)" % (t.kind, t.nest["shape"], t.nest["k"], t.nest["leaf"].routes[0].expr)
    if t.nodes is None:
        c = t.canon
        if t.cls == "flo":
            return "flonum %s" % t.routes[0].expr
        if isinstance(c, int) and abs(c) > 10 ** 12:
            c = "%s%d-bit integer" % ("-" if c < 0 else "", abs(c).bit_length())
        elif isinstance(c, (str, tuple)) and len(str(c)) > 60:
            c = str(c)[:57] + "..."
        return "%s %s" % (t.kind, c)
    return "%s (graph of %d nodes)" % (t.kind, len(t.nodes))


def equiv_key(rule, ta, ra, tb, rb, bwa=None, bwb=None):
    """Structural key of a rejected observation.  bwa/bwb: the byte sizes of the bignum objects met while
    walking each value, as recorded by the driver (an observed fact about the representation)."""
    if rule.endswith("-equivalence"):
        return "%s:not-an-equivalence-relation" % rule
    if ta is tb:
        if bwa != bwb:
            return "%s:equal-bignums-different-spare-words" % rule
        special = [r for r in (ra, rb) if r.layout not in ("plain", "literal", "port", "read")]
        if special:
            return "%s:equal-%ss-different-%s" % (rule, special[0].lkind, special[0].layout)
        return "%s:equal-%ss-different-routes" % (rule, ta.kind)
    ka, kb = sorted((ta.kind, tb.kind))
    return "%s:distinct-%s-vs-%s" % (rule, ka, kb)


def run_equiv_shard(build, sc, cat, shard_no, batches, timeout=240):
    """One chibi process + one TLC run.  Returns dict(trace, r, table, events, rc)."""
    terms = [t for b in batches for t, _ in b["members"]]
    tevs, local = term_events(cat, terms)
    text, table = equiv_program(cat, batches, local, shard_no * 100000)
    prog = sc.file("equiv_%d.scm" % shard_no)
    with open(prog, "w") as f:
        f.write(EQUIV_IMPORT + read(os.path.join(SCM, "c15_equiv.scm")) + text)
    outp = sc.file("equiv_%d.out" % shard_no)
    rc, err = run_chibi(build, prog, outp, timeout)
    trace = sc.file("equiv_%d.ndjson" % shard_no)
    assemble(trace, tevs, outp, rc)
    r = vlib.run_tlc("EquivTrace.tla", "EquivTrace.cfg", sc.path, env={"TRACE": trace}, workers=1, timeout=900, heap="3g")
    return dict(no=shard_no, trace=trace, r=r, table=table, rc=rc, stderr=err, batches=batches, local=local, tevs=tevs, prog=prog)


def soft_rejects(r):
    return sorted(set((m.group(1), int(m.group(2))) for m in re.finditer(r'<<"C15_REJECT", "([\w-]+)", (\d+)>>', r.out)))


def equiv_phase(chk, build, sc, cat):
    batches = equiv_batches(cat, chk)
    nshard = 12 if chk.thorough else 8
    shards = [[] for _ in range(nshard)]
    # spread by cost (instances squared), cyclic batches get shards of their own weight
    for b in sorted((b for b in batches if "deep" not in b), key=lambda b: -len(b["members"]) ** 2 * (3 if b["bg"] else 1)):
        min(shards, key=lambda s: sum(len(x["members"]) ** 2 * (3 if x["bg"] else 1) for x in s)).append(b)
    # deep batches: shards of their own (a comparison costs time proportional to the depth), deepest first
    dshards = [[] for _ in range(10 if chk.thorough else 3)]
    for b in sorted((b for b in batches if "deep" in b), key=lambda b: -b["deep"]):
        min(dshards, key=lambda s: sum(x["deep"] for x in s)).append(b)
    jobs = [(s, 240) for s in shards if s] + [(s, 2400 if chk.thorough else 600) for s in dshards if s]
    jobs.sort(key=lambda j: -j[1])
    results = vlib.parallel(lambda a: run_equiv_shard(build, sc, cat, a[0] + 1, a[1][0], a[1][1]), list(enumerate(jobs)), jobs=10)
    same_seen, bad_hash = set(), set()   # same-term (term, routeA, routeB) observed / rejected by the hash rule
    stats = collections.Counter()
    findings = {}           # key -> dict
    nobs = naccepted_batches = 0
    distinct_pairs = set()
    for res in results:
        r = res["r"]
        evs = vlib.read_ndjson(res["trace"])
        if r.error and "Postcondition" not in r.error and not rejected_at(r):
            raise Broken("EquivTrace failed on shard %d: %s" % (res["no"], r.error[:1500]))
        ra = rejected_at(r)
        rej = soft_rejects(r)
        # ---- structural rejection: crash, hang, error while evaluating, missing answers
        hard_batch = None
        if ra or not r.ok:
            idx = (ra[0] - 1) if ra else max(0, r.depth - 1)
            ev = evs[idx] if idx < len(evs) else {"e": "(end of trace)"}
            last = evs[idx - 1] if 0 < idx <= len(evs) else {}
            if ev.get("e") == "Inst" and ev.get("err") == 1:
                t, ri, _ = res["table"][ev["i"]]
                raise Broken("route does not evaluate: term %s route %s (%s)" % (describe(t), t.routes[ri].expr[:200], res["stderr"]))
            what = "no-answer" if last.get("e") == "Begin" else "rejected-structure"
            pend = last if last.get("e") == "Begin" else ev
            ia, ib = pend.get("a"), pend.get("b")
            ta = res["table"].get(ia)
            tb = res["table"].get(ib) if ib else ta
            if ta and tb:
                op = "hash" if not ib else "compare"
                key = "termination:%s:%s-%s" % (op, *sorted((ta[0].kind, tb[0].kind)))
                msg = "%s of %s [%s] and %s [%s] did not return (exit %s) -- trace rejected by EquivTrace at line %d" % (
                    op, describe(ta[0]), ta[0].routes[ta[1]].expr[:120], describe(tb[0]), tb[0].routes[tb[1]].expr[:120], res["rc"], idx + 1)
            else:
                key = "trace:%s:%s" % (what, ev.get("e"))
                msg = "EquivTrace rejected the trace structure at line %d: %s (driver exit %s %s)" % (idx + 1, json.dumps(ev)[:300], res["rc"], res["stderr"][-300:])
            findings.setdefault(key, dict(key=key, msg=msg, count=0, replay={"key": key, "kind": "equiv-structure", "event": ev, "before": evs[max(0, idx - 5):idx],
                                                                            "driver_exit": res["rc"], "stderr": res["stderr"], "tlc": r.summary()}))["count"] += 1
        # ---- rejected answers
        rejected_batches = set()
        inst = {e["i"]: e for e in evs if e.get("e") == "Inst"}
        for rule, line in rej:
            ev = evs[line - 1]
            if ev["e"] == "EndBatch":
                key = equiv_key(rule, None, None, None, None)
                rejected_batches.add(ev["b"])
                findings.setdefault(key, dict(key=key, msg="answers of batch %d do not form an equivalence relation (%s)" % (ev["b"], rule), count=0,
                                              replay={"key": key, "kind": "equiv-laws", "batch": [e for e in evs if e.get("e") in ("Inst", "Obs")][-400:]}))["count"] += 1
                continue
            ta, ia, ba = res["table"][ev["a"]]
            tb, ib, _ = res["table"][ev["b"]]
            rejected_batches.add(ba)
            rA, rB = ta.routes[ia], tb.routes[ib]
            key = equiv_key(rule, ta, rA, tb, rB, inst[ev["a"]]["bw"], inst[ev["b"]]["bw"])
            if rule == "hash" and ta is tb:
                bad_hash.add((ta.id, ia, ib))
                bad_hash.add((ta.id, ib, ia))
            f = findings.get(key)
            size = len(rA.expr) + len(rB.expr) + (0 if ta.nodes is None and ta.nest is None else 1000)
            if f is None or size < f["size"]:
                repro = "(let ((a %s) (b %s)) (list (equal? a b) (eqv? a b) (hash a) (hash b)))" % (rA.expr, rB.expr)
                f = findings[key] = dict(key=key, count=f["count"] if f else 0, size=size, pair=(ta, ia, tb, ib), msg="%s rule of Equiv.tla rejected: A = %s via %s ; B = %s via %s ; recorded %s ; hashes %s / %s" % (
                    rule, describe(ta), rA.expr[:140], describe(tb), rB.expr[:140], {k: ev[k] for k in ("eq", "eqv", "equal", "pequal")},
                    inst[ev["a"]]["h"][:2], inst[ev["b"]]["h"][:2]),
                    replay={"key": key, "kind": "equiv", "rule": rule, "A": {"term": describe(ta), "route": rA.expr, "layout": rA.layout},
                            "B": {"term": describe(tb), "route": rB.expr, "layout": rB.layout}, "same_abstract_value": ta is tb,
                            "recorded": {"obs": ev, "instA": inst[ev["a"]], "instB": inst[ev["b"]]}, "repro": repro,
                            "mini": mini_case(cat, ta, ia, tb, ib)})
            f["count"] += 1
        if r.ok and not ra:
            chk.cov.setdefault("clean_trace", []).append(res["trace"])
        # ---- accounting
        for b in res["batches"]:
            if b["id"] not in rejected_batches and not (ra or not r.ok):
                naccepted_batches += 1
        bgof = {b["id"]: b["bg"] for b in res["batches"]}
        for e in evs:
            if e.get("e") == "Obs":
                nobs += 1
                a, b_ = res["table"][e["a"]], res["table"][e["b"]]
                stats["same-instance" if e["a"] == e["b"] else "same-value-different-route" if a[0] is b_[0] else "different-value"] += 1
                stats["answered-equal" if e["equal"] else "answered-not-equal"] += 1
                if bgof[a[2]]:
                    stats["cyclic"] += 1
                if a[0].nest is not None and b_[0].nest is not None and a[0].nest["k"] > 10000:
                    stats["nested-deeper-than-10000"] += 1
                    if e["a"] != e["b"] and a[0] is b_[0]:
                        stats["nested-deeper-than-10000-equal-copies"] += 1
                if e["equal"] and e["a"] != e["b"]:
                    stats["hash-compared"] += 1
                if e["a"] != e["b"]:
                    distinct_pairs.add((a[0].id, a[1], b_[0].id, b_[1]))
                    if a[0] is b_[0]:
                        same_seen.add((a[0].id, a[1], b_[1]))
        if res["no"] == 1:
            obs = [e for e in evs if e.get("e") == "Obs" and e["a"] != e["b"]][:3]
            for e in obs:
                a, b_ = res["table"][e["a"]], res["table"][e["b"]]
                chk.sample({"kind": "observation", "A": a[0].routes[a[1]].expr[:100], "B": b_[0].routes[b_[1]].expr[:100], "same_abstract_value": a[0] is b_[0],
                            "recorded": {k: e[k] for k in ("eq", "eqv", "equal", "pequal")}})
    chk.cov["equiv_observation_classes"] = dict(stats)
    for k in ("same-value-different-route", "different-value", "same-instance", "answered-equal", "answered-not-equal", "cyclic", "hash-compared", "nested-deeper-than-10000", "nested-deeper-than-10000-equal-copies"):
        if not stats.get(k):
            raise Broken("vacuous: no observation of class %s" % k)
    chk.cov["equiv_batches"] = len(batches)
    chk.cov["equiv_batches_accepted"] = naccepted_batches
    chk.cov["equiv_observations"] = nobs
    chk.cov["equiv_distinct_route_pairs"] = len(distinct_pairs)
    chk.cov["equiv_terms"] = len(set(t.id for b in batches for t, _ in b["members"]))
    chk.cov["equiv_routes"] = len(set((t.id, i) for b in batches for t, i in b["members"]))
    if nobs < 2000:
        raise Broken("only %d observations recorded" % nobs)
    # every finding is confirmed on its two-instance case in a fresh interpreter process and a fresh TLC run
    def confirm(f):
        if "pair" not in f:
            return True
        case = f["replay"]["mini"]
        tag = re.sub(r"[^A-Za-z0-9]+", "_", f["key"])[:60]
        prog, outp, trace = sc.file("confirm_%s.scm" % tag), sc.file("confirm_%s.out" % tag), sc.file("confirm_%s.ndjson" % tag)
        with open(prog, "w") as fh:
            fh.write(EQUIV_IMPORT + read(os.path.join(SCM, "c15_equiv.scm")) + case["program"])
        rc, err = run_chibi(build, prog, outp, 120)
        assemble(trace, case["terms"], outp, rc)
        r = vlib.run_tlc("EquivTrace.tla", "EquivTrace.cfg", sc.path, env={"TRACE": trace}, workers=1, timeout=300, heap="2g")
        return f["replay"]["rule"] in [x[0] for x in soft_rejects(r)]
    flist = list(findings.values())
    for f, ok in zip(flist, vlib.parallel(confirm, flist, jobs=4)):
        if not ok:
            raise Broken("rejection %s is not reproducible on its two-instance case" % f["key"])
    # what an incoherent hash does to a table: one small history per finding, judged by MapTrace
    for f in findings.values():
        if f["key"].startswith("hash:equal-") and "pair" in f:
            c = consequence_probe(build, sc, cat, *f["pair"])
            if c:
                f["msg"] += " ; CONSEQUENCE: " + c["msg"]
                f["replay"]["consequence_for_tables"] = c
    # routes usable as table keys: the first route of a term and every route whose hash coherence with it
    # was observed and accepted by TLC (the map property is stated as a consequence of coherence)
    good = {}
    for tid, ra_, rb_ in same_seen:
        if ra_ == 0 and (tid, 0, rb_) not in bad_hash:
            good.setdefault(tid, {0}).add(rb_)
    return findings, good, len(distinct_pairs), nobs, naccepted_batches


def consequence_probe(build, sc, cat, ta, ia, tb, ib):
    """Insert a key computed by one route into an equal? table and look it up by the other route."""
    if ta is not tb or "key" not in ta.tags or ta.nan:
        return None
    hist = dict(no=9000 + ta.id, fe="69", cfg="equal-default", eqv="equal", insts=[(ta, ia), (tb, ib)],
                ops=[("make", 1, "equal-default", "equal"), ("set", 1, 1, 11), ("refd", 1, 2), ("ex", 1, 2), ("set", 1, 2, 22), ("size", 1), ("refd", 1, 1)])
    res = run_history(build, sc, cat, hist, "_probe")
    r = res["r"]
    ra = rejected_at(r)
    m = re.search(r'<<"C15_MAP_REJECT", "([^"]+)", (\d+)>>', r.out)
    if r.ok or not ra or not m:
        return None
    evs = vlib.read_ndjson(res["trace"])
    ev = evs[ra[0] - 1]
    return {"msg": "SRFI 69 equal? table: key set via route A, then %s via route B recorded %s -- rejected by Map.tla (%s)" % (ev["e"], json.dumps(ev), m.group(1)),
            "history": [list(o) for o in hist["ops"]], "rejected_event": ev, "tag": m.group(1)}


def mini_case(cat, ta, ia, tb, ib):
    """A self-contained two-instance case for --replay: Term events + program text."""
    b = [dict(id=1, bg=0, members=[(ta, ia), (tb, ib)])]
    tevs, local = term_events(cat, [ta, tb])
    text, _ = equiv_program(cat, b, local, 0)
    return {"terms": tevs, "program": text}


# =====================================================================================================
# Map half
# =====================================================================================================
def key_pool(cat, eqv, good, rng, nterms):
    """Key instances (term, route index) usable for a table with this equivalence, per the property's domain.
    Only routes whose hash coherence was accepted by the Equiv half are used (the map property is stated as a
    consequence of coherence)."""
    cand = [t for g, ts in cat.groups.items() if g != "big" for t in ts if "key" in t.tags and not t.nan and "cyclic" not in t.tags]
    pool = []
    if eqv == "string":
        cand = [t for t in cand if t.cls == "str" and "strkey" in t.tags]
    elif eqv == "eq":
        cand = [t for t in cand if t.cls in IDENT_CLS or t.cls in LOCATED_CLS]
    elif eqv == "eqv":
        cand = [t for t in cand if t.cls in VALUE_CLS or t.cls in LOCATED_CLS]
    rng.shuffle(cand)
    # make sure that several classes are present
    cand.sort(key=lambda t: rng.random() + (0.0 if t.cls in ("int", "str") else 0.15))
    for t in cand[:nterms]:
        routes = sorted(good.get(t.id, {0}))
        if eqv in ("eq", "eqv") and t.cls in LOCATED_CLS:
            routes = [i for i in routes if t.routes[i].fresh]
        if eqv == "eq" and t.cls not in IDENT_CLS and t.cls not in LOCATED_CLS:
            routes = []
        if not routes:
            continue
        rng.shuffle(routes)
        for i in routes[:rng.choice((2, 3, 3, 4))]:
            pool.append((t, i))
    return pool


def key_class(eqv, t, inst):
    if eqv in ("equal", "string") or (eqv == "eqv" and t.cls in VALUE_CLS) or (eqv == "eq" and t.cls in IDENT_CLS):
        return ("t", t.id)
    return ("i", inst)


def gen_history(cat, chk, hno, fe, cfg, eqv, good, nops):
    """A seeded operation history.  A shadow dictionary is kept only to steer the choice of operations
    (hit present keys often, aim plain update! at present keys and 'updmiss' at absent ones); it takes no
    part in any verdict."""
    rng = random.Random(chk.seed * 100003 + hno)
    pool = key_pool(cat, eqv, good, rng, rng.choice((24, 40, 60)))
    if len(pool) < 6:
        raise Broken("key pool too small for %s" % eqv)
    insts = list(pool)                     # instance i+1 = insts[i]
    by_class = {}
    for i, (t, ri) in enumerate(insts):
        by_class.setdefault(key_class(eqv, t, i + 1), []).append(i + 1)
    classes = list(by_class)
    shadow = {1: {}}
    fuzzy = set()                          # tables whose shadow is no longer exact (after pop!)
    ops = [("make", 1, cfg, eqv)]
    live = [1]
    is125 = fe == "125"

    def some_key(h, present=None):
        sh = shadow[h]
        if present is True and sh:
            c = rng.choice(list(sh))
        elif present is False:
            absent = [c for c in classes if c not in sh]
            c = rng.choice(absent) if absent else rng.choice(classes)
        else:
            c = rng.choice(classes)
        return c, rng.choice(by_class[c])
    # growth phase first: fill the table so that it is resized several times
    fill = rng.sample(classes, min(len(classes), max(8, len(classes) * 2 // 3)))
    for c in fill:
        v = rng.randrange(1000)
        ops.append(("set", 1, rng.choice(by_class[c]), v))
        shadow[1][c] = v
    while len(ops) < nops:
        h = rng.choice(live)
        x = rng.random()
        if x < 0.16:
            c, k = some_key(h)
            v = rng.randrange(1000)
            ops.append(("set", h, k, v)); shadow[h][c] = v
        elif x < 0.26:
            c, k = some_key(h, True if rng.random() < 0.7 else None)
            ops.append(("del", h, k)); shadow[h].pop(c, None)
        elif x < 0.40:
            c, k = some_key(h, True if rng.random() < 0.7 else False)
            ops.append((rng.choice(("reft", "refd", "ex")), h, k))
        elif h in fuzzy and x < 0.575:
            # the shadow is not exact for this table: only operations that are defined for present and absent keys
            c, k = some_key(h)
            if rng.random() < 0.3:
                d, dv = rng.randrange(1000), rng.randrange(1000)
                ops.append(("updt", h, k, d, dv))
                shadow[h][c] = (shadow[h].get(c, dv) + d) % 1000
            else:
                ops.append((rng.choice(("reft", "refd", "ex")), h, k))
        elif x < 0.46:
            c, k = some_key(h, True)
            if c in shadow[h]:
                ops.append(("ref", h, k))
            else:
                ops.append(("refmiss", h, k))
        elif x < 0.48:
            c, k = some_key(h, False)
            ops.append(("refmiss" if c not in shadow[h] else "ref", h, k))
        elif x < 0.56:
            c, k = some_key(h, True)
            d = rng.randrange(1000)
            if c in shadow[h]:
                ops.append(("upd", h, k, d)); shadow[h][c] = (shadow[h][c] + d) % 1000
            else:
                ops.append(("updmiss", h, k, d))
        elif x < 0.575:
            c, k = some_key(h, False)
            if c not in shadow[h]:
                ops.append(("updmiss", h, k, rng.randrange(1000)))
        elif x < 0.68:
            c, k = some_key(h)
            d, dv = rng.randrange(1000), rng.randrange(1000)
            ops.append((rng.choice(("updt", "updd")), h, k, d, dv))
            shadow[h][c] = (shadow[h].get(c, dv) + d) % 1000
        elif x < 0.80:
            ops.append((rng.choice(("size", "keys", "vals", "alist", "walk", "fold")), h))
        elif x < 0.83:
            h2 = rng.choice([a for a in (1, 2, 3) if a != h])
            ops.append(("copy", h, h2)); shadow[h2] = dict(shadow[h])
            (fuzzy.add if h in fuzzy else fuzzy.discard)(h2)
            if h2 not in live:
                live.append(h2)
        elif x < 0.85 and len(live) > 1:
            h2 = rng.choice([a for a in live if a != h])
            ops.append(("merge", h, h2))
            if h2 in fuzzy:
                fuzzy.add(h)
            for c, v in shadow[h2].items():
                shadow[h].setdefault(c, v)
        elif is125:
            y = rng.random()
            if y < 0.35:
                c, k = some_key(h)
                v = rng.randrange(1000)
                ops.append(("intern", h, k, v)); shadow[h].setdefault(c, v)
            elif y < 0.55:
                ops.append(("pop", h))      # which binding goes is the table's choice: the shadow stops being exact
                fuzzy.add(h)
            elif y < 0.62:
                ops.append(("clear", h)); shadow[h] = {}; fuzzy.discard(h)
            elif y < 0.8:
                ops.append(("empty", h))
            else:
                ops.append(("count", h, rng.randrange(1000) if not shadow[h] or rng.random() < 0.3 else rng.choice(list(shadow[h].values()))))
        else:
            c, k = some_key(h, True)
            ops.append(("ex", h, k))
    return dict(no=hno, fe=fe, cfg=cfg, eqv=eqv, insts=insts, ops=ops)


def tlc_scripts(sc, chk, num):
    """Operation scripts generated by TLC (-simulate) from Map.tla itself (spec/MapGen.tla)."""
    r = vlib.run_tlc("MapGen.tla", "MapGen.cfg", sc.path, workers=4, simulate=num, depth=30, seed=chk.seed, deadlock=False, timeout=300, heap="2g")
    if r.violated or (r.error and "HIST" not in r.out):
        raise Broken("MapGen failed: %s %s" % (r.violated, (r.error or "")[:500]))
    out, seen = [], set()
    for line in r.out.splitlines():
        m = re.match(r'<<"HIST", "(.*)">>$', line)
        if m and m.group(1) not in seen:
            seen.add(m.group(1))
            out.append(json.loads(m.group(1).replace('\\"', '"')))
    if not out:
        raise Broken("MapGen produced no behaviour")
    return out


def script_history(cat, chk, hno, fe, cfg, eqv, good, scripts):
    """Concrete history from TLC-generated scripts: every abstract key class becomes a catalogue term (or, in
    eq?/eqv? tables, a location), every occurrence of it one of the term's routes; the two abstract values and
    updater arguments become concrete values."""
    rng = random.Random(chk.seed * 100003 + hno)
    pool = key_pool(cat, eqv, good, rng, 40)
    insts = list(pool)
    by_class = {}
    for i, (t, ri) in enumerate(insts):
        by_class.setdefault(key_class(eqv, t, i + 1), []).append(i + 1)
    classes = sorted(by_class, key=lambda c: -len(by_class[c]))
    ops = []
    for sno, script in enumerate(scripts):
        ks = rng.sample(classes[:max(3, len(classes) // 2)], 3)      # prefer classes with several routes
        vals = rng.sample(range(1000), 2)
        for op in script:
            name = op[0]
            if fe == "69" and name in ("clear", "intern", "pop", "empty"):
                continue
            if name == "make":
                ops.append(("make", op[1], cfg, eqv))
            elif name in ("set", "intern"):
                ops.append((name, op[1], rng.choice(by_class[ks[op[2] - 1]]), vals[op[3]]))
            elif name in ("del", "ref", "refmiss", "reft", "refd", "ex"):
                ops.append((name, op[1], rng.choice(by_class[ks[op[2] - 1]])))
            elif name in ("upd", "updmiss"):
                ops.append((name, op[1], rng.choice(by_class[ks[op[2] - 1]]), vals[op[3]]))
            elif name in ("updt", "updd"):
                ops.append((name, op[1], rng.choice(by_class[ks[op[2] - 1]]), vals[op[3]], vals[op[4]]))
            elif name in ("copy", "merge"):
                ops.append((name, op[1], op[2]))
            else:
                ops.append((name, op[1]))
    return dict(no=hno, fe=fe, cfg=cfg, eqv=eqv, insts=insts, ops=ops, origin="tlc-simulate")


def deep_history(cat, hno, fe, cfg, shape, depth):
    """Deeply nested keys in an equal? table: A by two builders, the same depth with another innermost leaf (B),
    one level deeper (C).  A finite map keeps A, B, C apart and finds A by its other copy."""
    la, lb = cat.sym("a"), cat.sym("b")
    A, B_, C = cat.deep(shape, depth, la), cat.deep(shape, depth, lb), cat.deep(shape, depth + 1, la)
    insts = [(A, 0), (A, 1), (B_, 0), (C, 1)]
    ops = [("make", 1, cfg, "equal"), ("set", 1, 1, 11), ("size", 1), ("set", 1, 3, 22), ("size", 1), ("refd", 1, 2), ("refd", 1, 3), ("ref", 1, 1),
           ("ex", 1, 4), ("reft", 1, 4), ("updd", 1, 4, 5, 7), ("size", 1), ("keys", 1), ("alist", 1), ("vals", 1), ("del", 1, 2), ("size", 1),
           ("ex", 1, 1), ("refd", 1, 3), ("upd", 1, 3, 100), ("copy", 1, 2), ("set", 2, 1, 33), ("size", 2), ("size", 1), ("refd", 2, 3), ("refd", 2, 2),
           ("fold", 2), ("merge", 1, 2), ("size", 1), ("refd", 1, 1)]
    if fe == "125":
        ops += [("intern", 1, 2, 44), ("intern", 1, 3, 55), ("count", 1, 33), ("pop", 1), ("size", 1), ("clear", 1), ("empty", 1)]
    return dict(no=hno, fe=fe, cfg=cfg, eqv="equal", insts=insts, ops=ops, origin="deep-keys", single=True, deep=depth,
                pred=PRED_IMPL[(fe, cfg)])


def sexp(x):
    if isinstance(x, str):
        return json.dumps(x)
    return str(x)


def history_program(cat, hist, local):
    ks = "\n  ".join("(lambda () %s)" % t.routes[ri].expr for t, ri in hist["insts"])
    fresh = " ".join(str(t.routes[ri].fresh) for t, ri in hist["insts"])
    terms = " ".join(str(local[t]) for t, ri in hist["insts"])
    ops = "\n  ".join("(%s %s)" % (op[0], " ".join(sexp(a) for a in op[1:])) for op in hist["ops"])
    return ("(define K (vector\n  %s))\n(define FRESH (vector %s))\n(define TERM (vector %s))\n(run-history '(\n  %s))\n" % (ks, fresh, terms, ops))


def run_history(build, sc, cat, hist, tag=""):
    terms = [t for t, _ in hist["insts"]]
    tevs, local = term_events(cat, terms)
    name = "map_%d%s" % (hist["no"], tag)
    prog = sc.file(name + ".scm")
    with open(prog, "w") as f:
        f.write(FE[hist["fe"]])
        f.write(read(os.path.join(SCM, "c15_map.scm")))
        f.write(history_program(cat, hist, local))
    outp = sc.file(name + ".out")
    rc, err = run_chibi(build, prog, outp, 1800 if hist.get("deep") else 120)
    trace = sc.file(name + ".ndjson")
    assemble(trace, tevs, outp, rc)
    r = vlib.run_tlc("MapTrace.tla", "MapTrace.cfg", sc.path, env={"TRACE": trace}, workers=1, timeout=600, heap="3g")
    return dict(hist=hist, trace=trace, r=r, rc=rc, stderr=err, nterm=len(tevs), tevs=tevs, prog=prog)


KEYED_TAGS = ("ref:", "ref-thunk:", "ref-default:", "exists:", "set:", "delete:")     # the nature of the key matters for the key of the finding


def map_phase(chk, build, sc, cat, good):
    nh = 96 if chk.thorough else 16
    hists = []
    for i in range(nh):
        fe = "69" if i % 2 == 0 else "125"
        cfg, eqv = CFGS[fe][(i // 2) % len(CFGS[fe])]
        nops = chk.rng.choice((500, 500, 350, 200)) if chk.thorough else chk.rng.choice((500, 300, 200, 120))
        hists.append(gen_history(cat, chk, i + 1, fe, cfg, eqv, good, nops))
    # behaviours of the specification itself, walked by TLC, replayed on the real tables
    scripts = tlc_scripts(sc, chk, 24 if chk.thorough else 3)
    per = 4
    nscript_h = 0
    for j in range(0, min(len(scripts), 96 if chk.thorough else 16), per):
        i = len(hists)
        fe = "69" if nscript_h % 2 == 0 else "125"
        cfg, eqv = CFGS[fe][(chk.seed + nscript_h // 2) % len(CFGS[fe])]
        hists.append(script_history(cat, chk, i + 1, fe, cfg, eqv, good, scripts[j:j + per]))
        nscript_h += 1
    chk.cov["map_histories_from_tlc_simulation"] = nscript_h
    # deeply nested keys around the internal limits of the two equal? implementations
    allcfg = (("69", "equal-default"), ("69", "equal-r7"), ("125", "equal-cmp"), ("125", "equal-prim"))
    dplan = [("lt", 10002, allcfg), ("lt", 25000, allcfg[:2])]
    if chk.thorough:     # a comparison costs time proportional to the depth: the deepest keys on two SRFI 69 tables only
        dplan += [("vf", 20000, allcfg), ("lt", 49999, allcfg), ("vf", 100001, allcfg[:2])]
    ndeep = 0
    for shape, depth, cfgs in dplan:
        for fe, cfg in cfgs:
            hists.append(deep_history(cat, len(hists) + 1, fe, cfg, shape, depth))
            ndeep += 1
    chk.cov["map_histories_with_deep_keys"] = ndeep
    findings = {}
    accepted = 0
    nops_total = 0
    events_kinds = set()
    resizes = 0

    def one(hist):
        """validate; on a rejection record it, drop the rejected operation class and validate the rest"""
        out = []
        cur = hist
        for attempt in range(5):
            res = run_history(build, sc, cat, cur, "_%d" % attempt)
            out.append(res)
            r = res["r"]
            if r.ok or cur.get("single"):
                break
            ra = rejected_at(r)
            if not ra:
                break
            evs = vlib.read_ndjson(res["trace"])
            ev = evs[ra[0] - 1] if ra[0] - 1 < len(evs) else {}
            opidx = ra[0] - 1 - res["nterm"] - len(cur["insts"])
            if not (0 <= opidx < len(cur["ops"])):
                break
            names = (cur["ops"][opidx][0],)
            if names[0] == "make":
                break
            ops2 = [op for op in cur["ops"] if op[0] not in names]
            if len(ops2) == len(cur["ops"]):
                break
            cur = dict(cur, ops=ops2)
        return out
    for runs in vlib.parallel(one, hists, jobs=10):
        for res in runs:
            r, hist = res["r"], res["hist"]
            evs = vlib.read_ndjson(res["trace"])
            if "C15_OUT_OF_DOMAIN" in r.out:
                raise Broken("history %d uses a key outside the domain of its table" % hist["no"])
            if r.ok:
                accepted += 1
                chk.cov.setdefault("clean_map_trace", res["trace"])
                nops_total += len(hist["ops"])
                events_kinds.update(e.get("e") for e in evs)
                sizes = [e.get("n", 0) for e in evs if "n" in e]
                mx = max(sizes) if sizes else 0
                g, cap = 0, 23
                while mx * 3 > (cap >> 2) and g < 40:     # growth rule of lib/srfi/69/hash.c, only for the coverage figure
                    cap *= 2; g += 1
                resizes += g
                if sum(1 for x in chk.cov["samples"] if isinstance(x, dict) and x.get("kind") == "history") < 2:
                    chk.sample({"kind": "history", "front_end": "srfi " + hist["fe"], "table": hist["cfg"], "ops": len(hist["ops"]), "origin": hist.get("origin", "seeded"),
                                "first_events": [e for e in evs if e.get("e") not in ("Term", "Inst")][30:38]})
                continue
            if r.error and "Postcondition" not in r.error and not rejected_at(r):
                raise Broken("MapTrace failed on history %d: %s" % (hist["no"], r.error[:1500]))
            ra = rejected_at(r)
            idx = (ra[0] - 1) if ra else max(0, r.depth - 1)
            ev = evs[idx] if idx < len(evs) else {"e": "(end of trace)"}
            if ev.get("e") == "Inst" and ev.get("err") == 1:
                t, ri = hist["insts"][ev["i"] - 1]
                raise Broken("route does not evaluate: %s" % t.routes[ri].expr[:200])
            m = re.search(r'<<"C15_MAP_REJECT", "([^"]+)", (\d+)>>', r.out)
            tag = m.group(1) if m else ("%s:%s" % (ev.get("e"), r.violated or "structure"))
            key = "map:" + tag
            kterm = None
            if not m and res["rc"] != 0 and ev.get("e") in ("Exit", "Garbled"):
                # the interpreter died (signal) or stopped (timeout, error exit) in the middle of the history
                nxt = idx - res["nterm"] - len(hist["insts"])
                opn = hist["ops"][nxt][0] if 0 <= nxt < len(hist["ops"]) else "start"
                key = "map:%s:during-%s" % ("crash:signal-%d" % -res["rc"] if res["rc"] < 0 and res["rc"] != -9 else "timeout" if res["rc"] == -9 else "exit-%d" % res["rc"], opn)
                if "pred" in hist:
                    key += ":equal[%s]-table:%s-key" % (hist["pred"], hist["insts"][0][0].kind)
                else:
                    key += ":%s-table" % hist["eqv"]
            if "k" in ev and isinstance(ev["k"], int) and 0 < ev["k"] <= len(hist["insts"]) and tag.startswith(KEYED_TAGS):
                kterm, kri = hist["insts"][ev["k"] - 1]
                key += ":%s-table:%s-key" % (hist["eqv"] + ("[%s]" % hist["pred"] if "pred" in hist else ""), kterm.kind)
            f = findings.get(key)
            if f is None:
                r2 = vlib.run_tlc("MapTrace.tla", "MapTrace.cfg", sc.path, env={"TRACE": res["trace"]}, workers=1, timeout=600, heap="3g")
                if rejected_at(r2) != ra:
                    raise Broken("MapTrace is not deterministic on history %d" % hist["no"])
                opsn = [e for e in evs if e.get("e") not in ("Term", "Inst")]
                pos = idx - res["nterm"] - len(hist["insts"])
                f = findings[key] = dict(key=key, count=0, msg="SRFI %s table %s: answer rejected by Map.tla (%s) at operation %d: %s%s (driver exit %s)" % (
                    hist["fe"], hist["cfg"], tag, pos + 1, json.dumps(ev), " key = %s via %s" % (describe(kterm), kterm.routes[kri].expr[:120]) if kterm else "", res["rc"]),
                    replay={"key": key, "kind": "map", "tag": tag, "front_end": hist["fe"], "table": hist["cfg"], "equivalence": hist["eqv"], "rejected_event": ev,
                            "events_before": [e for e in evs[max(res["nterm"], idx - 12):idx]], "tlc": r.summary(),
                            "terms": res["tevs"], "program": history_program(cat, minimal_history(hist, evs, idx, res["nterm"]), term_events(cat, [t for t, _ in hist["insts"]])[1]),
                            "fe": hist["fe"], "driver_exit": res["rc"], "stderr": res["stderr"]})
            f["count"] += 1
    chk.cov["map_histories"] = len(hists)
    chk.cov["map_histories_accepted"] = accepted
    chk.cov["map_operations_validated"] = nops_total
    chk.cov["map_event_kinds"] = sorted(k for k in events_kinds if k)
    chk.cov["map_table_growths_in_accepted_histories"] = resizes
    need = {"Set", "Delete", "Ref", "RefThunk", "RefDefault", "Exists", "Update", "UpdateThunk", "UpdateDefault", "Size", "Keys", "Values", "Alist", "Walk", "Fold",
            "Copy", "Intern", "Pop", "Clear"}
    if accepted and not findings and not need <= events_kinds:
        raise Broken("operation kinds never validated: %s" % sorted(need - events_kinds))
    return findings, accepted, nops_total


def minimal_history(hist, evs, idx, nterm):
    """the operations up to and including the rejected one (instances unchanged)"""
    nop = idx - nterm - len(hist["insts"]) + 1
    return dict(hist, ops=hist["ops"][:max(1, nop)])


# =====================================================================================================
def binding_self_test(sc, equiv_traces, map_trace):
    """Soundness rule 5: a corrupted answer / a missing event in an otherwise accepted trace must be rejected."""
    done = {}
    target = None
    for equiv_trace in equiv_traces:
        lines = open(equiv_trace).read().splitlines()
        evs = [json.loads(x) for x in lines]
        inst = {}
        for n, e in enumerate(evs):
            if e["e"] == "Inst":
                inst[e["i"]] = e
            if e["e"] == "Obs" and e["a"] != e["b"] and e["equal"] == 1 and e["pequal"] == 1 and inst[e["a"]]["t"] == inst[e["b"]]["t"] and inst[e["a"]]["h"] == inst[e["b"]]["h"]:
                target = n
                break
        if target is not None:
            break
    if target is None:
        raise Broken("self test: no same-value observation in any trace")
    def write(name, ls):
        p = sc.file(name)
        with open(p, "w") as f:
            f.write("\n".join(ls) + "\n")
        return p

    def tlc(mod, p):
        return vlib.run_tlc(mod + ".tla", mod + ".cfg", sc.path, env={"TRACE": p}, workers=1, timeout=600, heap="3g")
    ia = next(n for n, e in enumerate(evs) if e["e"] == "Inst" and e["i"] == evs[target]["a"])
    mlines = open(map_trace).read().splitlines()
    mevs = [json.loads(x) for x in mlines]
    mt = next((n for n, e in enumerate(mevs) if e["e"] in ("RefDefault", "RefThunk") and e["res"] >= 0), None)
    ms = next((n for n, e in enumerate(mevs) if e["e"] == "Set"), None)
    if mt is None or ms is None:
        raise Broken("self test: no successful lookup in the map trace")

    def flipped_equal():      # equal? answered #f on two instances of one value
        r = tlc("EquivTrace", write("selftest_a.ndjson", lines[:target] + [json.dumps(dict(evs[target], equal=0))] + lines[target + 1:]))
        return ("equal", target + 1) in soft_rejects(r)

    def changed_hash():       # one hash value of one of the two instances altered
        bad = dict(evs[ia], h=[evs[ia]["h"][0] + "1"] + evs[ia]["h"][1:])
        r = tlc("EquivTrace", write("selftest_b.ndjson", lines[:ia] + [json.dumps(bad)] + lines[ia + 1:]))
        return ("hash", target + 1) in soft_rejects(r)

    def removed_observation():
        r = tlc("EquivTrace", write("selftest_c.ndjson", lines[:target] + lines[target + 1:]))
        return rejected_at(r) is not None

    def changed_table_answer():
        bad = dict(mevs[mt], res=(mevs[mt]["res"] + 1) % 1000)
        r = tlc("MapTrace", write("selftest_d.ndjson", mlines[:mt] + [json.dumps(bad)] + mlines[mt + 1:]))
        ra = rejected_at(r)
        return bool(ra and ra[0] == mt + 1 and "C15_MAP_REJECT" in r.out)

    def removed_set_event():  # the table is then larger than the map says
        r = tlc("MapTrace", write("selftest_e.ndjson", mlines[:ms] + mlines[ms + 1:]))
        return rejected_at(r) is not None
    tests = [flipped_equal, changed_hash, removed_observation, changed_table_answer, removed_set_event]
    for t, ok in zip(tests, vlib.parallel(lambda t: t(), tests, jobs=5)):
        done[t.__name__] = ok
    failed = [k for k, v in done.items() if not v]
    if failed:
        raise Broken("binding self test: corrupted traces were accepted: %s" % failed)
    return sorted(done)


def model_checking(chk, sc, out):
    try:
        r = vlib.run_tlc("Map.tla", "MapMC.cfg", sc.path, workers=4, coverage=True, timeout=600, heap="3g")
        out["map"] = r
        r = vlib.run_tlc("EquivNestMC.tla", "EquivNestMC7.cfg" if chk.thorough else "EquivNestMC.cfg", sc.path, workers=4, timeout=900, heap="3g")
        out["nest"] = r
        cfg = "EquivMCV.cfg" if chk.thorough else "EquivMC.cfg"
        r = vlib.run_tlc("EquivMC.tla", cfg, sc.path, workers=8 if chk.thorough else 4, timeout=1500, heap="3g")
        out["equiv"] = r
    except Exception as e:        # reported by the main thread
        out["exc"] = e


def run():
    chk = vlib.Check("C15")
    with vlib.Scratch("c15") as sc:
        build = vlib.build_repo(sc.sub("build"))
        mc = {}
        th = threading.Thread(target=model_checking, args=(chk, sc, mc))
        th.start()
        cat = c15terms.Catalogue(chk.seed, chk.thorough)
        t1 = time.time()
        efind, good, npairs, nobs, nbatches = equiv_phase(chk, build, sc, cat)
        t2 = time.time()
        mfind, nhist, nops = map_phase(chk, build, sc, cat, good)
        t3 = time.time()
        et, mt = chk.cov.pop("clean_trace", None), chk.cov.pop("clean_map_trace", None)
        if et and mt:
            try:
                chk.cov["binding_self_test"] = binding_self_test(sc, et, mt)
            except Broken as e:
                if not (efind or mfind):
                    raise
                chk.cov["binding_self_test"] = "not completed on a run with rejections: %s" % e
        else:
            chk.cov["binding_self_test"] = "skipped: no structurally accepted trace in this run"
        th.join()
        chk.cov["phase_seconds"] = {"build": round(t1 - chk.t0, 1), "equiv": round(t2 - t1, 1), "map": round(t3 - t2, 1), "wait_for_mc": round(time.time() - t3, 1)}
        if "exc" in mc:
            raise mc["exc"]
        for name, what in (("map", "MapMC"), ("nest", "EquivNestMC"), ("equiv", "EquivMC")):
            r = mc[name]
            vlib.require_tlc_ok(r, what)
            if r.violated:
                raise Broken("%s violates its own invariant %s" % (what, r.violated))
            chk.add_mc(what, r)
        missing = [a for a in MAP_ACTIONS if mc["map"].coverage.get(a, (0, 0))[1] == 0]
        if missing:
            raise Broken("MapMC: vacuous model run, actions never enabled: %s" % missing)
        chk.cov["exhaustive"] = True
        chk.cov["traces_validated_against_impl"] = nbatches + nhist
        chk.cov["evaluations"] = nobs + nops
        chk.cov["distinct_nontrivial"] = npairs + nhist
        chk.cov["rule"] = ("a case = one ordered pair of distinct value instances (term, route) x (term, route) whose eq?/eqv?/equal?/hash answers were recorded "
                           "and judged by EquivTrace.tla (distinct = distinct route pair), or one seeded operation history on a real SRFI 69/125 table accepted "
                           "by MapTrace.tla; traces_validated = accepted batches (all ordered pairs of <= 40 instances, equivalence laws checked) + accepted histories")
        chk.cov["routes_usable_as_table_keys"] = sum(len(v) for v in good.values())
        chk.assumptions += ["the catalogue (checks/c15terms.py) states which abstract value each route expression denotes; flonum routes use exact arithmetic only",
                            "eqv?/eq? between NaNs, between constants, and on empty strings/vectors are left open as in R7RS",
                            "table keys are never mutated; cyclic keys and NaN keys are not used in tables; default-comparator tables are not covered",
                            "routes whose hash coherence is rejected by the Equiv half are reported there and not used as table keys"]
        for f in list(efind.values()) + list(mfind.values()):
            name = re.sub(r"[^A-Za-z0-9_.-]+", "_", f["key"])[:100] + ".json"
            chk.report(f["key"], "%s [%d rejected case(s) with this key]" % (f["msg"], f["count"]), name, f["replay"])
    return chk.finish()


def replay(path):
    """Re-run a saved case on a fresh build of /repo and let TLC judge it again."""
    case = json.load(open(path))
    print(json.dumps({k: v for k, v in case.items() if k not in ("mini", "terms", "program")}, indent=1)[:6000])
    kind = case.get("kind")
    if kind not in ("equiv", "map"):
        return 0
    with vlib.Scratch("c15r") as sc:
        build = vlib.build_repo(sc.sub("build"))
        prog, outp, trace = sc.file("case.scm"), sc.file("case.out"), sc.file("case.ndjson")
        if kind == "equiv":
            with open(prog, "w") as f:
                f.write(EQUIV_IMPORT + read(os.path.join(SCM, "c15_equiv.scm")) + case["mini"]["program"])
            tevs, mod = case["mini"]["terms"], "EquivTrace"
        else:
            with open(prog, "w") as f:
                f.write(FE[case["fe"]] + read(os.path.join(SCM, "c15_map.scm")) + case["program"])
            tevs, mod = case["terms"], "MapTrace"
        rc, err = run_chibi(build, prog, outp, 120)
        assemble(trace, tevs, outp, rc)
        r = vlib.run_tlc(mod + ".tla", mod + ".cfg", sc.path, env={"TRACE": trace}, workers=1, timeout=300, heap="2g")
        print("--- recorded now:")
        print(read(outp)[-3000:])
        rej = soft_rejects(r) + re.findall(r'<<"C15_MAP_REJECT", "([^"]+)", (\d+)>>', r.out)
        print("--- TLC (%s): %s" % (mod, "REJECTED %s" % rej if (rej or not r.ok) else "accepted"))
        return 1 if (rej or not r.ok) else 0
