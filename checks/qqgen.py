"""Nested quasiquote programs for C03 (R7RS 4.2.8): a template is data with a nesting level; `unquote` / `unquote-splicing`
at level 0 evaluate their operand, at level d > 0 they stay in the structure and their operand is processed at level d-1;
an inner quasiquote raises the level.  Each program has two renditions (see coregen): surface text for chibi and a core
expression that BUILDS the prescribed datum with cons / append / constants for Core.tla.

Template (python):  int | ("sym", name) | [items...] | ("dot", [items...], tail) | ("qq", t) | ("uq", x) | ("uqs", x)
where x is a template while the level stays > 0 and a coregen node (an expression) when the level reaches 0.
Expressions are variables and pure primitive applications, so the result does not depend on the operand order."""
from coregen import N, I, S, V, prim, let, emit, begin, fresh


def _sym(n):
    return ["const", ["s", n]]


def _cons(a, b):
    return ["prim", "cons", [a, b]]


def _list(*xs):
    core = ["const", ["nil"]]
    for x in reversed(xs):
        core = _cons(x, core)
    return core


def qq_core(t, d):
    if isinstance(t, int):
        return ["const", ["i", t]]
    if isinstance(t, tuple):
        tag = t[0]
        if tag == "sym":
            return _sym(t[1])
        if tag == "qq":
            return _list(_sym("quasiquote"), qq_core(t[1], d + 1))
        if tag == "uq":
            return t[1].core if d == 0 else _list(_sym("unquote"), qq_core(t[1], d - 1))
        if tag == "uqs":           # not in a list context: only meaningful at d > 0 (stays structure)
            assert d > 0
            return _list(_sym("unquote-splicing"), qq_core(t[1], d - 1))
        if tag == "dot":
            return _items(t[1], qq_core(t[2], d), d)
    return _items(t, ["const", ["nil"]], d)


def _items(items, tail, d):
    core = tail
    for it in reversed(items):
        if isinstance(it, tuple) and it[0] == "uqs" and d == 0:
            core = ["prim", "append", [it[1].core, core]]
        else:
            core = _cons(qq_core(it, d), core)
    return core


def qq_scm(t, d):
    if isinstance(t, int):
        return str(t)
    if isinstance(t, tuple):
        tag = t[0]
        if tag == "sym":
            return t[1]
        if tag == "qq":
            return "`" + qq_scm(t[1], d + 1)
        if tag in ("uq", "uqs"):
            mark = "," if tag == "uq" else ",@"
            return mark + (t[1].scm if d == 0 else qq_scm(t[1], d - 1))
        if tag == "dot":
            return "(%s . %s)" % (" ".join(qq_scm(x, d) for x in t[1]), qq_scm(t[2], d))
    return "(%s)" % " ".join(qq_scm(x, d) for x in t)


def quasi(t):
    return N(qq_core(t, 0), "`" + qq_scm(t, 0))


class GenQQ:
    def __init__(self, rng, ints, lists):
        self.r, self.ints, self.lists = rng, ints, lists

    def expr(self):
        r = self.r
        k = r.randrange(4)
        if k == 0:
            return V(r.choice(self.ints))
        if k == 1:
            return prim("+", V(r.choice(self.ints)), I(r.randrange(1, 5)))
        if k == 2:
            return prim("car", V(r.choice(self.lists)))
        return prim("length", V(r.choice(self.lists)))

    def lexpr(self):
        r = self.r
        k = r.randrange(3)
        if k == 0:
            return V(r.choice(self.lists))
        if k == 1:
            return prim("list", V(r.choice(self.ints)), I(r.randrange(0, 9)))
        return prim("cdr", V(r.choice(self.lists)))

    def template(self, d, size, in_list=False):
        """a template at level d (0 = directly inside the outermost quasiquote)"""
        r = self.r
        k = r.randrange(10) if size > 0 else r.randrange(2)
        if k == 0:
            return r.randrange(0, 20)
        if k == 1:
            return ("sym", r.choice(["a", "b", "zed"]))
        if k in (2, 3):
            return ("uq", self.expr() if d == 0 else self.template(d - 1, size - 1))
        if k == 4 and in_list:
            return ("uqs", self.lexpr() if d == 0 else self.list_template(d - 1, size - 1))
        if k == 5 and d < 2:
            return ("qq", self.list_template(d + 1, size - 1))
        return self.list_template(d, size - 1)

    def list_template(self, d, size):
        r = self.r
        items = [self.template(d, size, True) for _ in range(r.randrange(1, 4))]
        if isinstance(items[0], tuple) and items[0][0] == "sym":
            items.insert(0, r.randrange(0, 9))      # never a list that merely LOOKS like (unquote x) / (quasiquote x)
        if r.random() < 0.15 and d == 0:
            return ("dot", items, ("uq", self.expr()))
        return items


def qq_cases(rng, nrandom=6):
    out = []
    n, m, xs, ys = fresh("qn"), fresh("qm"), fresh("qxs"), fresh("qys")

    def wrap(t):
        return let([(n, I(rng.randrange(1, 9))), (m, I(rng.randrange(10, 19))),
                    (xs, prim("list", I(rng.randrange(1, 5)), I(5), I(6))), (ys, prim("list", S("p"), S("q")))], emit(quasi(t)))
    e = lambda: V(n)
    # the R7RS examples, parametrised
    out.append(("r7rs-nested-1", wrap([("sym", "a"), ("qq", [("sym", "b"), ("uq", [("sym", "c"), ("uq", prim("+", V(n), V(m)))])])])))
    out.append(("r7rs-nested-2", wrap([("sym", "a"), ("qq", [("sym", "b"), ("uq", ("uq", V(n))), ("uq", [("sym", "foo"), ("uq", prim("+", V(n), I(3))), ("sym", "d")]), ("sym", "e")]), ("sym", "f")])))
    # splicing under an inner quasiquote: the operand of a level-1 ,@ is processed at level 0
    out.append(("inner-splice-operand", wrap([1, ("qq", [2, ("uqs", [3, ("uqs", V(xs)), ("uq", V(n))])])])))
    out.append(("inner-unquote-operand-splice", wrap([1, ("qq", [2, ("uq", [3, ("uqs", V(ys)), 4])])])))
    out.append(("double-inner", wrap([("qq", [1, ("qq", [2, ("uq", ("uq", [("sym", "k"), ("uq", V(m))]))])])])))
    out.append(("double-inner-splice", wrap([("qq", [1, ("qq", [2, ("uqs", ("uqs", [("sym", "k"), ("uqs", V(xs)), ("uq", V(m))]))])])])))
    out.append(("level0-mixed", wrap([("uq", V(n)), ("uqs", V(xs)), [("uqs", V(ys)), ("uq", prim("car", V(xs)))], ("uqs", prim("cdr", V(ys)))])))
    out.append(("dotted-unquote", wrap(("dot", [1, ("uq", V(n))], ("uq", V(xs))))))
    out.append(("splice-last-shares-nothing-visible", wrap([("uqs", V(xs)), ("uqs", V(ys))])))
    g = GenQQ(rng, [n, m], [xs, ys])
    for i in range(nrandom):
        out.append(("random", wrap(g.list_template(0, 4))))
    return out
