"""C02 -- GC never reclaims or corrupts data the program can still reach.
   MC of Heap.tla (rooting discipline incl. negative test), micro-heap replay with collections at every
   point, and the schedule sweep: real programs run under forced-collection schedules (hook H1, freed
   memory poisoned by H3, post-GC walk H2); TLC validates every collection and that the observable
   output of every run equals the reference run (HeapSummary!TEnd = ScheduleIndependence)."""
import glob, hashlib, threading, json, os, re, subprocess, sys
import vlib, heapcommon as hc
from vlib import Broken

PROGS = os.path.join(vlib.VERIF, "harness", "scm", "gcprogs")
ALLOC_WRAPPERS = re.compile(r"^(sexp_alloc|sexp_alloc_tagged_aux|sexp_cons_op|sexp_make_vector_op|sexp_make_bytes_op|sexp_make_string_op|"
                            r"sexp_c_string|sexp_make_flonum|sexp_make_bignum|sexp_list2|sexp_list3|sexp_listn|sexp_make_ephemeron_op|"
                            r"sexp_make_cpointer|sexp_make_uvector_op|sexp_try_alloc|sexp_gc|verif_.*|sexp_verif_.*|backtrace|sexp_intern|sexp_string_to_symbol_op|"
                            r"sexp_make_flonum|sexp_fixnum_to_bignum|sexp_copy_bignum|sexp_bignum_normalize|sexp_make_integer|sexp_make_unsigned_integer|"
                            r"sexp_make_ratio|sexp_make_complex|sexp_append2_op|sexp_substring_op|sexp_subbytes_op|sexp_string_concatenate_op|sexp_make_exception)$")


def schedules(tier, seed):
    """Collection schedules (hook H1 syntax).  'every=1,skip=K,max=M' forces a collection before every single
    allocation of a window; every=n,phase=j covers every allocation index with n runs (thorough)."""
    rnd = __import__("random").Random(seed)
    # quick: the two phases of every=2 together put a collection before EVERY allocation of every program (a value that is
    # unrooted across one particular allocation is found whatever that allocation is), a seeded sparse schedule gives the
    # same points a different heap history, and the afterbig schedules collect right after stack / vector / table growth
    s = ["every=2,phase=0", "every=2,phase=1", "seed=%d,p=6" % seed,
         "afterbig=4,bigsize=2048", "afterbig=12,bigsize=512"]
    if tier == "thorough":
        s += ["every=1", "every=5,phase=%d" % (seed % 5), "every=11,phase=%d" % (seed % 11), "every=64,phase=%d" % (seed % 64),
              "every=1,skip=%d,max=2500" % rnd.randrange(0, 6000)]
        s += ["every=3,phase=%d" % ((seed + 1) % 3), "every=3,phase=%d" % ((seed + 2) % 3)]
        s += ["every=7,phase=%d" % j for j in range(7) if j != seed % 7]
        s += ["seed=%d,p=%d" % (seed + j, p) for j in range(1, 4) for p in (2, 11, 101)]
        s += ["every=31,phase=%d" % j for j in range(0, 31, 5)]
    return s


def run_prog(build, sc, prog, sched, label, heap=None, aslr=False, extra_env=None, timeout=1800):
    t = sc.file("gc_%s.ndjson" % label)
    if os.path.exists(t):
        os.remove(t)
    env = {"CHIBI_VERIF_TRACE": t, "CHIBI_VERIF_WALK": "1", "CHIBI_VERIF_POISON": "1", "VERIF_SCHED": sched or ""}
    if extra_env:
        env.update(extra_env)
    cmd = build.cmd(*((["-h", heap] if heap else []) + [prog]))
    if not aslr:
        cmd = ["setarch", "-R"] + cmd
    try:
        p = subprocess.run(cmd, env=build.env(env), cwd=PROGS, stdout=subprocess.PIPE, stderr=subprocess.PIPE, timeout=timeout)
        rc, out, err = p.returncode, p.stdout.decode(errors="replace"), p.stderr.decode(errors="replace")
    except subprocess.TimeoutExpired:
        rc, out, err = -9, "", "timeout"
    return dict(label=label, prog=os.path.basename(prog), sched=sched, heap=heap, rc=rc, out=out, err=err[-600:], trace=t)


def compose(sc, runs, name):
    path = sc.file(name)
    with open(path, "w") as f:
        for r in runs:
            f.write(json.dumps({"e": "Run", "label": r["label"], "prog": r["prog"], "sched": r["sched"] or ""}) + "\n")
            for e in vlib.read_ndjson(r["trace"]):
                if e.get("e") in ("Gc", "Grow", "Crash"):
                    f.write(json.dumps(e, separators=(",", ":")) + "\n")
            f.write(json.dumps({"e": "End", "prog": r["prog"], "rc": r["rc"], "out": r["out"][:6000], "olen": len(r["out"])}) + "\n")
    return path


def validate(sc, path):
    cfg = sc.file("HeapSummarySweep.cfg")
    if not os.path.exists(cfg):
        tmp = "%s.%d.%d.tmp" % (cfg, os.getpid(), threading.get_ident())
        with open(tmp, "w") as f:
            f.write("SPECIFICATION Spec\nCONSTANTS GrowNum = 1000000\n GrowDen = 1\nPOSTCONDITION Accepted\nCHECK_DEADLOCK FALSE\n")
        os.replace(tmp, cfg)
    return vlib.run_tlc("HeapSummary.tla", cfg, sc.path, env={"TRACE": path}, workers=1, timeout=1200, heap="8g")


def failing_run_index(path, r):
    """Index (into the list of runs) of the run containing the rejected event."""
    ra = hc.rejected_at(r)
    evs = vlib.read_ndjson(path)
    idx = (ra[0] - 1) if ra else len(evs) - 1
    n = -1
    for i, e in enumerate(evs):
        if e.get("e") == "Run":
            n += 1
        if i >= idx:
            break
    return n, (evs[idx] if idx < len(evs) else {})


def run_fails(build, sc, ref_out, prog, sched, label, heap):
    r = run_prog(build, sc, prog, sched, label, heap)
    evs = vlib.read_ndjson(r["trace"])
    bad_gc = any(e.get("e") == "Gc" and any(e.get("anom", [])) for e in evs)
    crash = any(e.get("e") == "Crash" for e in evs)
    fails = r["rc"] != 0 or r["out"] != ref_out or bad_gc or crash
    return fails, r, evs


def localise(build, sc, ref_out, prog, sched, heap, label):
    """Bisect the forced collections of a failing run down to the first fatal one; return (key, details)."""
    fails, r, evs = run_fails(build, sc, ref_out, prog, sched, label + "_full", heap)
    if not fails:
        return "not-reproducible", {"note": "failure did not repeat under setarch -R"}
    nforced = sum(1 for e in evs if e.get("e") == "Gc" and e.get("forced") == 1) + 1
    crash0 = [e for e in evs if e.get("e") == "Crash"]
    hi = None
    if crash0 and crash0[0].get("lastidx"):
        # candidate: the last forced collection before the crash
        cand = crash0[0]["lastidx"]
        f1, _, _ = run_fails(build, sc, ref_out, prog, sched + ",until=%d" % cand, label + "_c", heap)
        f0, _, _ = run_fails(build, sc, ref_out, prog, sched + ",until=%d" % (cand - 1), label + "_c", heap) if cand > 1 else (False, None, None)
        if f1 and not f0:
            hi = cand
    if hi is None:
        lo, hi = 0, max(nforced, 1)
        f_hi, _, _ = run_fails(build, sc, ref_out, prog, sched + ",until=%d" % hi, label + "_b", heap)
        tries = 0
        while not f_hi and tries < 8:
            hi *= 4; tries += 1
            f_hi, _, _ = run_fails(build, sc, ref_out, prog, sched + ",until=%d" % hi, label + "_b", heap)
        if not f_hi:
            return "not-localised", {"note": "failure needs more than %d forced collections" % hi}
        while hi - lo > 1:
            mid = (lo + hi) // 2
            f, _, _ = run_fails(build, sc, ref_out, prog, sched + ",until=%d" % mid, label + "_b", heap)
            if f:
                hi = mid
            else:
                lo = mid
    f, rr, evs = run_fails(build, sc, ref_out, prog, sched + ",until=%d" % hi, label + "_fatal", heap)
    stack = []
    for e in evs:
        if e.get("e") == "Forced":
            stack = e.get("gcstack", [])
    crash = [e for e in evs if e.get("e") == "Crash"]
    names = vlib.resolve_frames(build, stack)
    key_fn = "unknown"
    for nme in names:
        if nme.startswith("?") or "+0x" in nme:
            continue
        if ALLOC_WRAPPERS.match(nme):
            continue
        key_fn = nme
        break
    single, _, _ = run_fails(build, sc, ref_out, prog, sched + ",only=%d" % hi, label + "_only", heap)
    details = {"prog": os.path.basename(prog), "sched": sched, "fatal_collection_index": hi, "single_collection_suffices": single,
               "gc_call_stack": names[:14], "crash_stack": vlib.resolve_frames(build, crash[0].get("stack", []))[:12] if crash else None,
               "rc": rr["rc"], "output_differs": rr["out"] != ref_out, "stderr": rr["err"][-300:],
               "reproduce": "VERIF_SCHED='%s,until=%d' CHIBI_VERIF_POISON=1 setarch -R chibi-scheme %s (scratch build with -DCHIBI_VERIF=1, (verif probe) on the module path)" % (sched, hi, os.path.basename(prog))}
    return "unrooted-across-allocation:" + key_fn, details


def run():
    chk = vlib.Check("C02")
    with vlib.Scratch("c02") as sc:
        build = vlib.build_repo(sc.sub("build"))
        vlib.build_probe(build, sc)
        # ---- MC
        hc.mc(chk, sc, "C")
        hc.mc(chk, sc, "B")
        hc.mc(chk, sc, "N", expect_violation="HeldValid")
        # ---- micro heap: collections between any two mutator steps, contents compared after every step
        n = 60 if chk.thorough else 12
        hists = hc.gen_behaviours(sc, "HeapGen.cfg", num=n, depth=260, seed=chk.seed + 7)
        hists2 = hc.gen_behaviours(sc, "HeapGenBig.cfg", num=n, depth=260, seed=chk.seed + 8)
        a = hc.micro_campaign(chk, sc, build, hists[:3000], 12, 36, "c02a")
        a += hc.micro_campaign(chk, sc, build, hists2[:3000], 6, 96, "c02b")
        chains = hc.chain_scripts()
        chk.rng.shuffle(chains)
        a += hc.micro_campaign(chk, sc, build, chains[:len(chains) if chk.thorough else 60], 8, 64, "chain", batch=90)
        chk.cov["micro_behaviours"] = a
        # ---- schedule sweep on real programs
        progs = sorted(glob.glob(os.path.join(PROGS, "p*.scm")))
        scheds = schedules(chk.tier, chk.seed)
        heaps = [None] if not chk.thorough else [None, "400K", "8M"]
        jobs = []
        for p in progs:
            base = os.path.basename(p)[:-4]
            jobs.append((p, None, base + "_ref", None))
            for hi, heap in enumerate(heaps):
                for si, s in enumerate(scheds):
                    if hi > 0 and si % 3 != hi % 3:
                        continue
                    jobs.append((p, s, "%s_h%d_s%d" % (base, hi, si), heap))
        results = vlib.parallel(lambda j: run_prog(build, sc, j[0], j[1], j[2], j[3]), jobs)
        refs = {r["prog"]: r for r in results if r["sched"] is None}
        for pr, r in refs.items():
            if r["rc"] != 0 or not r["out"]:
                raise Broken("reference run of %s failed: rc=%s %s" % (pr, r["rc"], r["err"][-300:]))
        byprog = {}
        for r in results:
            if r["sched"] is not None:
                byprog.setdefault(r["prog"], []).append(r)

        def validate_batch(item):
            tag, runs = item
            path = compose(sc, runs, "sweep_%s.ndjson" % tag)
            tr = validate(sc, path)
            if tr.error and "Postcondition" not in tr.error:
                raise Broken("HeapSummary failed on %s: %s" % (tag, tr.error[:1500]))
            return tag, runs, path, tr

        rejected, accepted, nforced = [], 0, 0
        batches = [(pr[:-4], [refs[pr]] + rs) for pr, rs in sorted(byprog.items())]
        singles = []
        for tag, runs, path, tr in vlib.parallel(validate_batch, batches, jobs=8):
            if tr.ok:
                accepted += len(runs) - 1
                nforced += sum(1 for e in vlib.read_ndjson(path) if e.get("e") == "Gc" and e.get("forced") == 1)
            else:
                singles += [("%s_%d" % (tag, i), [runs[0], r]) for i, r in enumerate(runs[1:])]
        for tag, runs, path, tr in vlib.parallel(validate_batch, singles, jobs=8):
            if tr.ok:
                accepted += 1
                nforced += sum(1 for e in vlib.read_ndjson(path) if e.get("e") == "Gc" and e.get("forced") == 1)
            else:
                i, ev = failing_run_index(path, tr)
                if i == 0:
                    raise Broken("reference run rejected: %s %s" % (runs[0]["label"], ev))
                rejected.append((runs[1], ev))
        chk.cov["traces_validated_against_impl"] += accepted
        chk.cov["forced_collections_validated"] = nforced
        chk.cov["programs"] = len(progs)
        chk.cov["schedules"] = scheds
        chk.sample({"program": "p02_bignum.scm", "schedule": scheds[0], "accepted_runs": accepted})
        # ---- localise and classify the rejected runs (one per distinct key)
        seen = set()
        # localise at most 3 rejected runs per program (different schedules may hit different defects)
        todo, per = [], {}
        for bad, ev in rejected:
            per[bad["prog"]] = per.get(bad["prog"], 0) + 1
            if per[bad["prog"]] <= 3:
                todo.append((bad, ev))
        locs = vlib.parallel(lambda be: localise(build, sc, refs[be[0]["prog"]]["out"], os.path.join(PROGS, be[0]["prog"]), be[0]["sched"], be[0]["heap"], "loc_" + be[0]["label"]), todo)
        unrepeatable = 0
        for (bad, ev), (key, details) in zip(todo, locs):
            if key == "not-reproducible":
                # the same program, schedule and address-space layout did not fail again (typically: a run that hit its time limit
                # on a loaded machine): a rejection is reported only if a re-run repeats it
                unrepeatable += 1
                continue
            if key in seen:
                continue
            seen.add(key)
            details["rejected_event"] = ev
            chk.report(key, "run %s under schedule '%s' rejected by HeapSummary (output/exit differs from the reference run, crash, or heap anomaly)" % (bad["prog"], bad["sched"]),
                       "sweep_%s.json" % re.sub(r"[^A-Za-z0-9_]+", "_", key), details)
        chk.cov["rejected_runs"] = len(rejected)
        chk.cov["rejections_not_repeated"] = unrepeatable
        if unrepeatable > 3 and not chk.violations:
            raise Broken("%d rejected runs did not fail again when repeated: the machine is too loaded (time limits) or the programs are not deterministic" % unrepeatable)
        chk.cov["evaluations"] = len(jobs) + a
        chk.cov["distinct_nontrivial"] = accepted + a
        chk.cov["rule"] = ("a case = (program, collection schedule, heap size) or one TLC-generated micro-heap behaviour; non-trivial = at least one "
                           "forced collection happened; accepted = TLC accepted every Gc event and the End event (output = reference output)")
        chk.cov["exhaustive"] = False
        chk.assumptions += ["forced collections are armed after the libraries are loaded (bootstrap deliberately keeps raw C strings in traced slots)",
                            "ASLR disabled (setarch -R) so that allocation numbering is reproducible for bisection"]
    return chk.finish()


def replay(path):
    print(open(path).read()[:6000])
    return 0
