"""C14 -- library imports expose exactly the requested bindings and nothing else.

   spec/Import.tla     R7RS 5.2 import sets as finite maps visible name -> binding (forward formulation Names,
                       backward formulation Lookup), libraries with renamed exports and re-exports
   spec/ImportRun.tla  instantiate-once / shared state, what a program observes when it refers to a name
   spec/ImportMC.tla   TLC enumerates every well-formed import set to depth 3 over a small graph and checks the laws
   spec/ImportGen.tla  the same builder pointed at generated library graphs: TLC generates the cases
   spec/ImportTrace.tla TLC accepts / rejects what the real chibi-scheme did, one verdict per case

   Binding: the check writes the generated graph as .sld files (unique tagged values, exported macro / procedure
   around a private helper, a tick procedure over private state, a Body event written by the library body),
   harness/scm/c14 creates (environment <sets>) / runs a real program with (import <sets>) and records, for every
   name of the universe, what referring to it yields.  Python renders and orchestrates; every verdict is TLC's."""
import json, os, re, subprocess
import vlib
from vlib import Broken

HARN = os.path.join(vlib.VERIF, "harness", "scm", "c14")
PFX = ["p", "q:"]
RENAME_POOL = ["a", "x", "z", "pz", "q:z"]
NAMEPOOL = ["a", "b", "c", "x", "y", "t", "m", "g", "pa", "pb", "px", "q:a", "q:x", "q:t", "pq:a", "h1", "h2", "h3", "h4"]
BASE = ["car", "cons", "list", "vector", "write-string", "string-append", "define", "if", "let", "lambda", "quote",
        "set!", "begin", "environment", "eval", "c14-run-file", "seq", "probe"]


# ---------------------------------------------------------------------------------------------------------
# rendering (format conversion only)
# ---------------------------------------------------------------------------------------------------------
def libname(k):
    return "(c14 l%d)" % k


def render(e):
    t = e[0]
    if t == "lib":
        return libname(e[1])
    s = render(e[1])
    if t in ("only", "except"):
        return "(%s %s%s)" % (t, s, "".join(" " + i for i in e[2]))
    if t == "rename":
        return "(rename %s%s)" % (s, "".join(" (%s %s)" % (a, b) for a, b in e[2]))
    if t == "prefix":
        return "(prefix %s %s)" % (s, e[2])
    if t == "drop":
        return "(drop-prefix %s %s)" % (s, e[2])
    raise Broken("unknown import set %r" % (e,))


def init_value(k, name, vk, code, ver):
    """Scheme expression for the value variable <name> of library k holds at version <ver> (Import!Val)."""
    if vk == "list":
        return '(list %d "%s" %s)' % (k, name, ver)
    if vk == "fix":
        return "(+ %d %s)" % (code * 100000, ver)
    if vk == "char":
        return "(integer->char (+ %d (modulo %s 4096)))" % (65536 + code * 4096, ver)
    if vk == "bool":
        return "(odd? %s)" % ver
    raise Broken("unknown value kind %r" % vk)


def render_lib(k, lib):
    out = ["(define-library %s" % libname(k), "  (import (scheme base)%s)" % "".join(" " + render(e) for e in lib["imports"])]
    ex = []
    for ext, internal in lib["exports"]:
        ex.append(ext if ext == internal else "(rename %s %s)" % (internal, ext))
    out.append("  (export %s)" % " ".join(ex))
    out.append("  (begin")
    out.append('    (write-string "{\\"e\\":\\"Body\\",\\"lib\\":%d}\\n")' % k)
    helper, counter, version = "h%d" % k, "k%d" % k, "v%d" % k
    out.append("    (define (%s s) (list %d s))" % (helper, k))
    out.append("    (define %s 0)" % counter)
    out.append("    (define %s 0)" % version)
    late = []
    variables = [(name, arg, code) for name, kind, arg, code in lib["defs"] if kind == "var"]
    for name, kind, arg, code in lib["defs"]:
        if kind == "priv":
            continue
        if kind == "var":
            if lib.get("late") and name in lib["late"]:       # defined first, assigned by the body itself afterwards
                out.append("    (define %s 0)" % name)
                late.append("    (set! %s %s)" % (name, init_value(k, name, arg, code, "0")))
            else:
                out.append("    (define %s %s)" % (name, init_value(k, name, arg, code, "0")))
        elif kind == "proc":
            out.append('    (define (%s) (%s "%s"))' % (name, helper, name))
        elif kind == "mac":
            out.append('    (define-syntax %s (syntax-rules () ((_) (%s "%s"))))' % (name, helper, name))
        elif kind == "tick":
            out.append('    (define (%s) (set! %s (+ %s 1)) (list %d "%s" %s))' % (name, counter, counter, k, name, counter))
        elif kind == "bump":       # the library assigns all its variables
            out.append("    (define (%s) (set! %s (+ %s 1))%s (list %d \"%s\" %s))"
                       % (name, version, version, "".join(" (set! %s %s)" % (v, init_value(k, v, vk, c, version)) for v, vk, c in variables),
                          k, name, version))
        elif kind == "rd":         # this library reads a variable in its scope (its own or an imported one) directly
            out.append("    (define (%s) %s)" % (name, arg))
        elif kind == "relay":      # this library makes another library assign its variables
            out.append('    (define (%s) (list %d "%s" (car (cddr (%s)))))' % (name, k, name, arg))
        else:
            raise Broken("unknown kind %r" % kind)
    out += late
    out.append("  ))")
    return "\n".join(out) + "\n"


def write_libs(graph, moddir):
    d = os.path.join(moddir, "c14")
    os.makedirs(d, exist_ok=True)
    for k, lib in enumerate(graph["libs"], 1):
        with open(os.path.join(d, "l%d.sld" % k), "w") as f:
            f.write(render_lib(k, lib))


def depth(e):
    return 0 if e[0] == "lib" else 1 + depth(e[1])


def base(e):
    return e[1] if e[0] == "lib" else base(e[1])


def shape(e):
    return "lib" if e[0] == "lib" else "%s(%s)" % (e[0], shape(e[1]))


def mods(e):
    return [] if e[0] == "lib" else [e[0]] + mods(e[1])


# structural description of a rejected case, used only to NAME the finding (never to judge)
def tainted(e, graph):
    if e[0] == "lib":
        return any(x != i for x, i in graph["libs"][e[1] - 1]["exports"])
    if e[0] in ("prefix", "drop", "rename"):
        return True
    if e[0] == "only":
        return False
    return tainted(e[1], graph)


def only_over_renamed(e, graph):
    if e[0] == "lib":
        return False
    return (e[0] == "only" and tainted(e[1], graph)) or only_over_renamed(e[1], graph)


def closure(k, graph, acc=None):
    acc = set() if acc is None else acc
    if k not in acc:
        acc.add(k)
        for e in graph["libs"][k - 1]["imports"]:
            closure(base(e), graph, acc)
    return acc


def closure_of(sets, graph):
    libs = set()
    for e in sets:
        closure(base(e), graph, libs)
    return libs


def case_only_over_renamed(sets, graph):
    if any(only_over_renamed(e, graph) for e in sets):
        return True
    libs = set()
    for e in sets:
        closure(base(e), graph, libs)
    return any(only_over_renamed(e, graph) for k in libs for e in graph["libs"][k - 1]["imports"])


# ---------------------------------------------------------------------------------------------------------
# TLC as case generator
# ---------------------------------------------------------------------------------------------------------
def tlc_gen(sc, graphfile, tag, exhaustive_depth=None, sims=0, seed=1, maxids=2, timeout=300, pool=None):
    """Returns TLC-generated well-formed import sets over the graph: list of {"e": set, "names": [[name,[lib,int]],..]}."""
    cfg = sc.file("gen_%s.cfg" % tag)
    with open(cfg, "w") as f:
        f.write("SPECIFICATION %s\nCONSTANTS\n  Graph <- GenGraph\n  MaxDepth = %d\n  MaxIds = %d\n  Pfx = {%s}\n  Pool = {%s}\n"
                "  MaxTicks = 0\n  CopyImmediates = FALSE\n  MaxEnvs = 0\n  StartLibs <- Libs\nINVARIANTS GenOK Emit\nCHECK_DEADLOCK FALSE\n"
                % ("BuildSpec" if exhaustive_depth is not None else "GenSpec",
                   exhaustive_depth if exhaustive_depth is not None else 4, maxids,
                   ", ".join('"%s"' % p for p in PFX), ", ".join('"%s"' % p for p in (pool or RENAME_POOL))))
    if exhaustive_depth is not None:
        r = vlib.run_tlc("ImportGen.tla", cfg, sc.path, env={"GRAPH": graphfile}, workers=2, timeout=timeout, heap="2g")
    else:
        r = vlib.run_tlc("ImportGen.tla", cfg, sc.path, env={"GRAPH": graphfile}, workers=1, simulate=sims, depth=5, seed=seed,
                         timeout=timeout, heap="2g")
    if r.violated:
        raise Broken("ImportGen(%s): %s violated -- the generated graph is not well-formed\n%s" % (tag, r.violated, r.out[-1500:]))
    if r.error:
        raise Broken("ImportGen(%s) failed: %s" % (tag, r.error[:2000]))
    out, seen = [], set()
    for line in r.out.splitlines():
        m = re.match(r'<<"CASE", "(.*)">>$', line)
        if m:
            txt = m.group(1).replace('\\"', '"')
            if txt not in seen:
                seen.add(txt)
                out.append(json.loads(txt))
    if not out:
        raise Broken("ImportGen(%s) produced nothing:\n%s" % (tag, r.out[-1500:]))
    return out, r


def stratify(cands, rng, n):
    """An even share of every modifier chain (TLC's simulation favours the kinds with many instances)."""
    groups = {}
    for c in cands:
        groups.setdefault(tuple(mods(c["e"])), []).append(c)
    order = sorted(groups)
    rng.shuffle(order)
    for k in order:
        rng.shuffle(groups[k])
    out = []
    while len(out) < n and any(groups[k] for k in order):
        for k in order:
            if groups[k] and len(out) < n:
                out.append(groups[k].pop())
    return out


def names_of(c):
    return {n: tuple(b) for n, b in c["names"]}


def agree(maps):
    seen = {}
    for m in maps:
        for n, b in m.items():
            if seen.setdefault(n, b) != b:
                return False
    return True


# ---------------------------------------------------------------------------------------------------------
# library graphs: python draws the random choices, every import set in them is one TLC generated
# ---------------------------------------------------------------------------------------------------------
def binding_kind(graph, b):
    for d in graph["libs"][b[0] - 1]["defs"]:
        if d[0] == b[1]:
            return d[1]
    raise Broken("no definition %r" % (b,))


def pick_defs(rng, k, taken, imported=None, graph=None):
    """defs entries: [name, kind, arg, code]; imported: name -> binding (from TLC) for readers / relays of this library."""
    own = ("h%d" % k, "k%d" % k, "v%d" % k)
    pool = [n for n in NAMEPOOL if n not in taken and n not in own]
    names = rng.sample(pool, min(len(pool), rng.randint(5, 7)))
    kinds = []
    for prob, kind in ((0.9, "bump"), (0.85, "tick"), (0.75, "mac"), (0.6, "proc")):
        if rng.random() < prob:
            kinds.append(kind)
    imported = imported or {}
    ivars = sorted(n for n, b in imported.items() if binding_kind(graph, b) == "var")
    ibumps = sorted(n for n, b in imported.items() if binding_kind(graph, b) == "bump")
    extra = []
    for n in rng.sample(ivars, min(len(ivars), 2)):
        extra.append(("rd", n))
    if ibumps and rng.random() < 0.8:
        extra.append(("relay", rng.choice(ibumps)))
    kinds = kinds[:max(0, len(names) - len(extra) - 2)]
    nvar = len(names) - len(kinds) - len(extra)
    vks = ["fix", "list", "char", "bool"]
    rng.shuffle(vks)
    plan = kinds + extra + [("var", vks[i % 4]) for i in range(nvar)]
    rng.shuffle(plan)
    defs = [[n, "priv", "", 0] for n in own]
    idx = 0
    for name, item in zip(names, plan):
        if isinstance(item, tuple) and item[0] == "var":
            idx += 1
            defs.append([name, "var", item[1], k * 30 + idx])
        elif isinstance(item, tuple):
            defs.append([name, item[0], item[1], 0])
        else:
            defs.append([name, item, "", 0])
    # some libraries read one of their own variables through a procedure as well
    ownvars = [d[0] for d in defs if d[1] == "var"]
    free = [n for n in pool if n not in names]
    if ownvars and free and rng.random() < 0.5:
        defs.append([rng.choice(free), "rd", rng.choice(ownvars), 0])
    return defs


def pick_exports(rng, defs, imported):
    own = [d[0] for d in defs if d[1] != "priv"]
    chosen = [d[0] for d in defs if d[1] != "priv" and (rng.random() < 0.75 or d[1] in ("bump", "rd", "relay"))]
    if len(chosen) < 2:
        chosen = own[:2]
    chosen += [n for n in sorted(imported) if rng.random() < 0.5]
    exports, used = [], set()
    extpool = NAMEPOOL + ["z", "pz", "o"]
    for n in chosen:
        ext = n
        if rng.random() < 0.35:
            ext = rng.choice(extpool)
        if ext in used:
            ext = n
        if ext in used:
            continue
        used.add(ext)
        exports.append([ext, n])
        if rng.random() < 0.15:                      # the same binding under a second name
            alias = rng.choice(extpool)
            if alias not in used:
                used.add(alias)
                exports.append([alias, n])
    return exports


def late_vars(rng, defs):
    return [d[0] for d in defs if d[1] == "var" and rng.random() < 0.3]


def make_graph(chk, sc, gid, rng, nlibs):
    gdir = sc.sub("g%d" % gid)
    graph = {"libs": [], "base": BASE}
    gfile = os.path.join(gdir, "graph.json")
    layers = [3, 5, 6] if nlibs >= 6 else [2, nlibs]

    def save():
        with open(gfile, "w") as f:
            f.write(json.dumps(graph, separators=(",", ":")) + "\n")

    for k in range(1, layers[0] + 1):
        defs = pick_defs(rng, k, set())
        graph["libs"].append({"imports": [], "defs": defs, "exports": pick_exports(rng, defs, {}), "late": late_vars(rng, defs)})
    save()
    for li in range(1, len(layers)):
        cands, _ = tlc_gen(sc, gfile, "g%d_layer%d" % (gid, li), sims=40, seed=chk.seed * 100 + gid * 10 + li)
        cands = stratify([c for c in cands if c["names"]], rng, 60)
        for k in range(layers[li - 1] + 1, layers[li] + 1):
            own = {"h%d" % k, "k%d" % k, "v%d" % k}         # the library's private helper / state must not clash with an import
            usable = [c for c in cands if not own & set(names_of(c))]
            if not usable:
                raise Broken("no usable import set for library %d of graph %d" % (k, gid))
            picks = None
            for _ in range(200):
                cand = rng.sample(usable, min(len(usable), rng.choice([1, 2, 2])))
                if li > 1 and all(base(c["e"]) <= layers[0] for c in cand):
                    continue                     # the last layer imports from the middle one: re-export chains
                if agree([names_of(c) for c in cand]):
                    picks = cand
                    break
            if picks is None:
                picks = [rng.choice(usable)]
            imported = {}
            for c in picks:
                imported.update(names_of(c))
            defs = pick_defs(rng, k, set(imported), imported, graph)
            graph["libs"].append({"imports": [c["e"] for c in picks], "defs": defs, "exports": pick_exports(rng, defs, imported),
                                  "late": late_vars(rng, defs)})
        save()
    moddir = os.path.join(gdir, "mod")
    write_libs(graph, moddir)
    return dict(gid=gid, graph=graph, gfile=gfile, gdir=gdir, moddir=moddir)


def make_cases(chk, sc, g, rng, sims, nsim, npairs, nprog, deep=False):
    gid = g["gid"]
    if deep:      # every import set with <= 2 modifiers (smaller menus)
        allc, r1 = tlc_gen(sc, g["gfile"], "g%d_all" % gid, exhaustive_depth=2, maxids=1, timeout=1200, pool=["z"])
    else:         # every import set with <= 1 modifier
        allc, r1 = tlc_gen(sc, g["gfile"], "g%d_all" % gid, exhaustive_depth=1, maxids=(2 if chk.thorough else 1), timeout=900,
                           pool=(["a", "z"] if chk.thorough else ["z"]))
    simc, r2 = tlc_gen(sc, g["gfile"], "g%d_sim" % gid, sims=sims, seed=chk.seed * 1000 + gid)
    seen, singles = set(), []
    for c in allc:
        seen.add(json.dumps(c["e"]))
        singles.append(c)
    # from the simulated expressions take an even share of every modifier chain (long chains and drop-prefix are rare)
    fresh = []
    for c in simc:
        key = json.dumps(c["e"])
        if key not in seen and depth(c["e"]) >= 2:
            seen.add(key)
            fresh.append(c)
    singles += stratify(fresh, rng, nsim)
    cases = [{"sets": [c["e"]], "path": "env"} for c in singles]
    universe = set(BASE)
    for lib in g["graph"]["libs"]:
        universe.update(d[0] for d in lib["defs"])
        universe.update(x for x, _ in lib["exports"])
    for c in singles:
        universe.update(n for n, _ in c["names"])
    # programs that import several sets: python pairs TLC's expressions whose names agree; TLC re-decides SetsWF
    made = 0
    nonempty = [c for c in singles if c["names"]]
    for _ in range(npairs * 30):
        if made >= npairs:
            break
        picks = rng.sample(nonempty, rng.choice([2, 2, 3]))
        if agree([names_of(c) for c in picks]):
            cases.append({"sets": [c["e"] for c in picks], "path": "env"})
            made += 1
    # a sample of the same cases also as real programs (main.c: script with top-level import)
    idx = [i for i, c in enumerate(cases) if depth(c["sets"][0]) >= 1 or len(c["sets"]) > 1]
    for i in rng.sample(idx, min(nprog, len(idx))):
        cases.append({"sets": cases[i]["sets"], "path": "prog"})
    g["cases"] = cases
    g["universe"] = sorted(universe)
    g["cfile"] = os.path.join(g["gdir"], "cases.ndjson")
    vlib.write_ndjson(g["cfile"], [{"sets": c["sets"]} for c in cases])
    g["enumerated"] = len(allc)
    return g


# ---------------------------------------------------------------------------------------------------------
# running the implementation (recording only)
# ---------------------------------------------------------------------------------------------------------
def run_env_batch(build, g, ids, label):
    cf = os.path.join(g["gdir"], "batch_%s.scm" % label)
    with open(cf, "w") as f:
        f.write("(universe %s)\n" % " ".join('"%s"' % n for n in g["universe"]))
        for i in ids:
            f.write("(case %d %s)\n" % (i, " ".join(render(e) for e in g["cases"][i - 1]["sets"])))
    env = build.env()
    env["CHIBI_MODULE_PATH"] = ":".join([g["moddir"], HARN, build.lib, vlib.REPO + "/lib"])
    try:
        p = subprocess.run(build.cmd(os.path.join(HARN, "c14run.scm"), cf), env=env, cwd=g["gdir"], stdout=subprocess.PIPE,
                           stderr=subprocess.PIPE, timeout=600)
        rc, out, err = p.returncode, p.stdout.decode(errors="replace"), p.stderr.decode(errors="replace")
    except subprocess.TimeoutExpired as ex:
        rc, out, err = -9, (ex.stdout or b"").decode(errors="replace"), "timeout"
    lines = [x for x in out.splitlines() if x.strip()]
    lines.append('{"e":"Exit","rc":%d}' % rc)
    return dict(label=label, ids=ids, lines=lines, rc=rc, stderr=err[-600:])


def run_prog(build, g, i, label):
    sets = g["cases"][i - 1]["sets"]
    pf = os.path.join(g["gdir"], "prog_%s.scm" % label)
    with open(pf, "w") as f:
        f.write("(import %s)\n(import (only (verif c14drv) zz-c14-probe))\n(zz-c14-probe %d \"(%s)\")\n"
                % (" ".join(render(e) for e in sets), i, " ".join('\\"%s\\"' % n for n in g["universe"])))
    env = build.env()
    env["CHIBI_MODULE_PATH"] = ":".join([g["moddir"], HARN, build.lib, vlib.REPO + "/lib"])
    try:
        p = subprocess.run(build.cmd(pf), env=env, cwd=g["gdir"], stdout=subprocess.PIPE, stderr=subprocess.PIPE, timeout=120)
        rc, out, err = p.returncode, p.stdout.decode(errors="replace"), p.stderr.decode(errors="replace")
    except subprocess.TimeoutExpired as ex:
        rc, out, err = -9, (ex.stdout or b"").decode(errors="replace"), "timeout"
    lines = ['{"e":"Start","n":1}', '{"e":"Import","n":2,"id":%d}' % i]
    body = [x for x in out.splitlines() if x.strip()]
    lines += body
    if not any('"e":"Imported"' in x for x in body):
        # the program ended before its imports were complete: record the interpreter's own diagnostic
        m = re.search(r"ERROR[^:\n]*: *([^\n]*)", err)
        msg = re.sub(r"[^A-Za-z0-9 :-]", "_", (m.group(1) if m else "no diagnostic")[:80])
        lines.append('{"e":"Imported","n":3,"id":%d,"err":1,"msg":"%s"}' % (i, msg))
    lines.append('{"e":"Exit","rc":%d}' % rc)
    return dict(label=label, ids=[i], lines=lines, rc=rc, stderr=err[-600:])


# ---------------------------------------------------------------------------------------------------------
# TLC decides
# ---------------------------------------------------------------------------------------------------------
VERDICT = re.compile(r'^"CASE (\d+) (ok|rejected|skipped) (\S+)"$')


def validate(sc, g, runs, label):
    tf = os.path.join(g["gdir"], "trace_%s.ndjson" % label)
    with open(tf, "w") as f:
        for r in runs:
            f.write("\n".join(r["lines"]) + "\n")
    r = vlib.run_tlc("ImportTrace.tla", "ImportTrace.cfg", sc.path, env={"GRAPH": g["gfile"], "CASES": g["cfile"], "TRACE": tf},
                     workers=1, timeout=900, heap="3g")
    verdicts, cur, indetail = [], None, False          # [id, verdict, reason, detail text]
    for line in r.out.splitlines():
        m = VERDICT.match(line)
        if m:
            cur, indetail = [int(m.group(1)), m.group(2), m.group(3), ""], False
            verdicts.append(cur)
        elif cur is not None and re.match(r'<< ?"DETAIL"', line):
            cur[3], indetail = line.strip(), True
        elif cur is not None and indetail and line.startswith(" "):
            cur[3] += " " + line.strip()
        else:
            indetail = False              # e.g. an interleaved progress line of TLC
    return dict(label=label, trace=tf, tlc=r, verdicts=verdicts, runs=runs)


def rejected_at(r):
    m = re.search(r'"TRACE_REJECTED_AT", (\d+), (\d+), (TRUE|FALSE)', r.out)
    return (int(m.group(1)), int(m.group(2)), m.group(3)) if m else None


def case_key(g, case, reason, detail):
    """Structural name of a rejected case (reporting only; the rejection itself is TLC's)."""
    sets = case["sets"]
    used = sorted({m for e in sets for m in mods(e)}) or ["lib"]
    if reason == "import-error":
        if case_only_over_renamed(sets, g["graph"]) and ("unknown binding" in detail or "reference itself" in detail):
            return "only-over-renamed-id"
        return "import-error:" + "+".join(used)
    if reason == "instances":
        return "instances"
    if reason == "aliasing":
        # an importer read a value the exporter's variable held earlier: which class of value, which kind of importer
        m = re.search(r'holds \|-> "(\w+)"', detail)
        via = re.search(r'via \|-> "(\w+)"', detail)
        rex = re.search(r"reexported \|-> (TRUE|FALSE)", detail)
        cls = "immediate" if m and m.group(1) in ("fix", "char", "bool") else "heap"
        who = "library-importer" if via and via.group(1) == "library" else ("program-importer" if case["path"] == "prog" else "env-importer")
        return "aliasing:%s:%s%s" % (cls, who, ":reexport" if rex and rex.group(1) == "TRUE" and who != "library-importer" else "")
    return reason + ":" + "+".join(used)


def run():
    chk = vlib.Check("C14")
    import random
    from concurrent.futures import ThreadPoolExecutor
    with vlib.Scratch("c14") as sc:
        import time
        timing, t0 = {}, time.time()
        build = vlib.build_repo(sc.sub("build"))
        timing["build"] = round(time.time() - t0, 1)
        # ---------------- MC (the specification checks itself) in parallel with case generation
        mcs = [("ImportMC3.cfg", "3-name library with a renamed export, all import sets to nesting depth 3"),
               ("ImportMC.cfg", "re-exporting library, all import sets to nesting depth 2"),
               ("ImportRunMC.cfg", "instantiate once / shared state / every alias reads the exporter's location (SameLocation)"),
               ("ImportRunMCneg.cfg", "negative test: copying immediate values into immutable importers must violate SameLocation")]
        if chk.thorough:
            mcs.append(("ImportMCdia.cfg", "the diamond library (8 exports), all import sets to nesting depth 2"))
            mcs.append(("ImportMC3all.cfg", "libraries 1 and 2, all import sets to nesting depth 3"))

        def mc(item):
            return item, vlib.run_tlc("ImportMC.tla", item[0], sc.path, workers=4, timeout=1700, heap="4g", coverage=(item[0] == "ImportRunMC.cfg"))
        ngraphs = 5 if chk.thorough else 3

        def prepare(gid):
            rng = random.Random(chk.seed * 7919 + gid)
            g = make_graph(chk, sc, gid, rng, 4 if gid % 3 == 0 else 6)
            return make_cases(chk, sc, g, rng, sims=(200 if chk.thorough else 60), nsim=(1500 if chk.thorough else 300),
                              npairs=(200 if chk.thorough else 60), nprog=(40 if chk.thorough else 12),
                              deep=(chk.thorough and gid == 3))
        with ThreadPoolExecutor(max_workers=5) as ex:
            fm = [ex.submit(mc, it) for it in mcs]
            fg = [ex.submit(prepare, gid) for gid in range(1, ngraphs + 1)]
            graphs = [f.result() for f in fg]
            timing["graphs_and_cases_generated_at"] = round(time.time() - t0, 1)
            # ---------------- run the implementation (recording only)
            jobs = []
            for g in graphs:
                envids = [i for i, c in enumerate(g["cases"], 1) if c["path"] == "env"]
                random.Random(chk.seed * 31 + g["gid"]).shuffle(envids)
                for bi, ids in enumerate(vlib.chunks(envids, 120)):
                    jobs.append((g, "env", ids, "e%d" % bi))
                for i, c in enumerate(g["cases"], 1):
                    if c["path"] == "prog":
                        jobs.append((g, "prog", [i], "p%d" % i))
            runs = vlib.parallel(lambda j: (j[0], run_env_batch(build, j[0], j[2], j[3]) if j[1] == "env" else run_prog(build, j[0], j[2][0], j[3])),
                                 jobs, jobs=8)
            timing["implementation_runs_done_at"] = round(time.time() - t0, 1)
            slow = [r["label"] for _, r in runs if r["rc"] == -9]
            if slow:
                raise Broken("driver processes %s hit the time limit (overloaded machine?): no verdict" % slow[:5])
            # ---------------- TLC decides: shards of several processes of one graph
            shards = []
            for g in graphs:
                mine = [r for gg, r in runs if gg is g]
                envr = [r for r in mine if r["label"].startswith("e")]
                progr = [r for r in mine if r["label"].startswith("p")]
                for si, part in enumerate(vlib.chunks(envr, 3)):
                    shards.append((g, part, "s%d" % si))
                if progr:
                    shards.append((g, progr, "sp"))
            vals = vlib.parallel(lambda sh: (sh[0], validate(sc, sh[0], sh[1], sh[2])), shards, jobs=6)
            timing["validated_at"] = round(time.time() - t0, 1)
            mcres = [f.result() for f in fm]
            timing["mc_done_at"] = round(time.time() - t0, 1)
        chk.cov["timing"] = timing
        for (cfg, what), r in mcres:
            vlib.require_tlc_ok(r, cfg)
            if cfg == "ImportRunMCneg.cfg":
                if r.violated != "SameLocation":
                    raise Broken("%s: SameLocation does not notice copied immediates (%s)" % (cfg, r.summary()))
                chk.cov["negative_model_violates_SameLocation"] = True
                continue
            if r.violated:
                raise Broken("%s: the specification violates its own law %s\n%s" % (cfg, r.violated, r.out[-2000:]))
            if r.distinct < 50:
                raise Broken("%s: vacuous model run (%d states)" % (cfg, r.distinct))
            if cfg == "ImportRunMC.cfg":
                vlib.check_coverage(r, ["DoBegin", "DoBody", "DoEnd", "DoRefer", "DoDiscard"], cfg)
            chk.add_mc("%s (%s)" % (cfg, what), r)
        chk.cov["exhaustive"] = True
        stats = {"ok": 0, "rejected": 0, "skipped": 0}
        rejected = {}          # key -> rejected cases; one report per key, with the smallest case as the replay
        kinds_seen, mods_ok, depth_ok, nvisible, distinct, okprog = set(), {}, {}, 0, set(), 0
        holds_seen, mutated_reads, reprobes, assigned = set(), {}, 0, {}
        # rule out tool flakiness: a shard with rejections must be rejected the same way once more
        again = vlib.parallel(lambda gv: validate(sc, gv[0], gv[1]["runs"], gv[1]["label"] + "_again")
                              if (rejected_at(gv[1]["tlc"]) or any(x[1] == "rejected" for x in gv[1]["verdicts"])) else None, vals, jobs=6)
        timing["revalidated_at"] = round(time.time() - t0, 1)
        for (g, v), v2 in zip(vals, again):
            r = v["tlc"]
            ra = rejected_at(r)
            if r.error and not ra:
                raise Broken("ImportTrace failed on graph %d shard %s: %s" % (g["gid"], v["label"], r.error[:2500]))
            if ra and ra[2] == "FALSE":
                raise Broken("generated graph %d is not well-formed according to Import.tla (GraphWF)" % g["gid"])
            expected = [i for run in v["runs"] for i in run["ids"]]
            got, allv = {}, {}              # several verdicts per case (first probe, later re-probes): the first rejection counts
            for i, verdict, reason, detail in v["verdicts"]:
                allv.setdefault(i, []).append((verdict, reason, detail))
                if i not in got or (got[i][0] != "rejected" and verdict == "rejected"):
                    got[i] = (verdict, reason, detail)
            rej = sorted(i for i in got if got[i][0] == "rejected")
            if rej or ra:
                if v2 is None or sorted({x[0] for x in v2["verdicts"] if x[1] == "rejected"}) != rej or rejected_at(v2["tlc"]) != ra:
                    raise Broken("TLC verdicts on graph %d shard %s are not reproducible" % (g["gid"], v["label"]))
            recorded = {}
            for run in v["runs"]:
                for x in run["lines"]:
                    if '"e":"Imported"' in x and '"err":1' in x:
                        ev = json.loads(x)
                        recorded[ev["id"]] = ev.get("msg", "")
                    elif '"e":"Assigned"' in x:          # R7RS leaves it open: what chibi does is recorded, not judged
                        ev = json.loads(x)
                        path = g["cases"][ev["id"] - 1]["path"]
                        for _, outcome in ev["obs"]:
                            k2 = "%s:%s" % ("program" if path == "prog" else "environment", outcome)
                            assigned[k2] = assigned.get(k2, 0) + 1
            for i in rej:
                case = g["cases"][i - 1]
                _, reason, detail = got[i]
                if reason == "import-error":
                    detail = "recorded diagnostic: " + recorded.get(i, "?")
                key = case_key(g, case, reason, detail)
                size = sum(len(json.dumps(e)) for e in case["sets"]) + 1000 * len(closure_of(case["sets"], g["graph"]))
                rejected.setdefault(key, []).append((size, g["gid"], i, g, case, reason, detail))
                stats["rejected"] += 1
            if ra:
                evs = [json.loads(x) if x.startswith("{") else {"raw": x[:200]} for run in v["runs"] for x in run["lines"]]
                idx = ra[0] - 1
                ev = evs[idx] if idx < len(evs) else {}
                key = "trace-structure:%s" % ev.get("e", "end-of-trace")
                chk.report(key, "trace of graph %d shard %s not accepted at event %d %s" % (g["gid"], v["label"], idx + 1, str(ev)[:300]),
                           "g%d_%s_structure.json" % (g["gid"], v["label"]),
                           {"key": key, "event": ev, "before": evs[max(0, idx - 5):idx], "graph": g["graph"],
                            "stderr": [run["stderr"] for run in v["runs"] if run["rc"] != 0][:3]})
                continue
            missing = [i for i in expected if i not in got]
            if missing:
                raise Broken("no verdict for cases %s of graph %d shard %s\n%s" % (missing[:5], g["gid"], v["label"], r.out[-1500:]))
            for i, (verdict, reason, detail) in got.items():
                case = g["cases"][i - 1]
                if verdict == "skipped":
                    stats["skipped"] += 1
                if verdict != "ok":
                    continue
                stats["ok"] += 1
                okprog += case["path"] == "prog"
                for _, reason2, detail2 in allv[i]:
                    m = re.search(r"(\d+),\s*\{(.*?)\},\s*\{(.*?)\},\s*(\d+)", detail2)
                    if m:
                        if reason2 == "first":
                            nvisible += int(m.group(1))
                        else:
                            reprobes += 1
                        kinds_seen.update(x.strip().strip('"') for x in m.group(2).split(",") if x.strip())
                        holds_seen.update(x.strip().strip('"') for x in m.group(3).split(",") if x.strip())
                        mutated_reads[case["path"]] = mutated_reads.get(case["path"], 0) + int(m.group(4))
                for e in case["sets"]:
                    for md in mods(e):
                        mods_ok[md] = mods_ok.get(md, 0) + 1
                    depth_ok[depth(e)] = depth_ok.get(depth(e), 0) + 1
                if len(case["sets"]) > 1 or depth(case["sets"][0]) >= 1:
                    distinct.add((g["gid"], case["path"], json.dumps(case["sets"])))
                if case["path"] == "prog" and okprog == 1:
                    chk.sample({"path": "program", "program": "(import %s)" % " ".join(render(e) for e in case["sets"]), "TLC": "ok " + detail[:80]})
                elif depth(case["sets"][0]) >= 3 and len(chk.cov["samples"]) < 3:
                    chk.sample({"path": "environment", "import": [render(e) for e in case["sets"]], "TLC": "ok " + detail[:80]})
        for key in sorted(rejected):
            lst = sorted(rejected[key], key=lambda x: x[:3])
            size, gid, i, g, case, reason, detail = lst[0]
            libs = sorted(closure_of(case["sets"], g["graph"]))
            chk.report(key, "%d cases rejected by ImportTrace.tla; smallest: case %d of graph %d (%s path) (import %s): %s %s"
                       % (len(lst), i, gid, case["path"], " ".join(render(e) for e in case["sets"]), reason, detail[:300]),
                       "%s.json" % re.sub(r"[^A-Za-z0-9+-]", "_", key),
                       {"key": key, "path": case["path"], "import": [render(e) for e in case["sets"]], "sets": case["sets"],
                        "reason": reason, "verdict": detail[:1500], "graph": g["graph"],
                        "libraries": {libname(k): render_lib(k, g["graph"]["libs"][k - 1]) for k in libs},
                        "how": "put the libraries on the module path as c14/l<k>.sld and evaluate (environment '<import set> ...) "
                               "from (scheme eval), or run a script starting with (import <sets>); then refer to every name",
                        "other_rejected_cases_with_this_key": [{"graph": x[1], "path": x[4]["path"], "import": [render(e) for e in x[4]["sets"]],
                                                                "reason": x[5], "verdict": x[6][:200]} for x in lst[1:40]]})
        chk.cov["rejected_by_key"] = {k: len(v) for k, v in rejected.items()}
        # ---------------- binding demonstrated: a corrupted record must be rejected by TLC
        chk.cov["corrupted_record_rejected"] = corrupt_demo(sc, vals)
        # ---------------- evidence, vacuity
        total = sum(len(g["cases"]) for g in graphs)
        chk.cov["traces_validated_against_impl"] = stats["ok"]
        chk.cov["evaluations"] = total
        chk.cov["distinct_nontrivial"] = len(distinct)
        chk.cov["rule"] = ("a case = one program / environment importing 1-3 TLC-generated well-formed import sets over a generated library graph "
                           "(all import sets with <= 1 modifier (thorough: <= 2 on one graph) enumerated by TLC, deeper ones TLC-simulated to nesting depth 4), observed name by name "
                           "over the universe of all names; non-trivial = at least one modifier or several sets; distinct = distinct (graph, path, import sets)")
        chk.cov["cases"] = stats
        chk.cov["programs_accepted"] = okprog
        chk.cov["graphs"] = [{"libs": len(g["graph"]["libs"]), "cases": len(g["cases"]), "enumerated_exhaustively": g["enumerated"], "universe": len(g["universe"]),
                              "renamed_exports": sum(1 for lb in g["graph"]["libs"] for x, i in lb["exports"] if x != i),
                              "library_imports": [render(e) for lb in g["graph"]["libs"] for e in lb["imports"]]} for g in graphs]
        chk.cov["visible_names_checked"] = nvisible
        chk.cov["names_probed"] = sum(len(g["universe"]) * len(g["cases"]) for g in graphs)
        chk.cov["modifiers_in_accepted_cases"] = mods_ok
        chk.cov["nesting_depth_of_accepted_sets"] = {str(k): depth_ok[k] for k in sorted(depth_ok)}
        chk.cov["binding_kinds_observed"] = sorted(kinds_seen)
        chk.cov["variable_values_observed"] = sorted(holds_seen)
        chk.cov["reads_of_variables_after_their_library_assigned_them"] = mutated_reads
        chk.cov["earlier_importers_used_again"] = reprobes
        chk.cov["importer_assigning_imported_variable (not judged, R7RS: an error)"] = assigned
        chk.sample({"library": render_lib(len(graphs[0]["graph"]["libs"]), graphs[0]["graph"]["libs"][-1])})
        if chk.violations:
            return chk.finish()          # rejections stand; coverage thresholds are judged on runs without a new violation
        if stats["ok"] < 100:
            raise Broken("vacuous: only %d cases accepted (%s)" % (stats["ok"], stats))
        if stats["skipped"] * 5 > total:
            raise Broken("vacuous: %d of %d cases were not well-formed" % (stats["skipped"], total))
        need = {"only", "except", "rename", "prefix", "drop"}
        # (a known finding takes whole libraries out, so the spread of the remaining cases is not required then)
        if not chk.known_hits and (need - set(mods_ok) or not depth_ok.get(4) or not okprog
                                   or not {"var", "proc", "mac", "tick", "bump", "rd", "relay"} <= kinds_seen
                                   or not {"list", "fix", "char", "bool"} <= holds_seen
                                   or mutated_reads.get("env", 0) < 200 or not mutated_reads.get("prog") or reprobes < 100):
            raise Broken("vacuous: accepted cases cover modifiers %s, depths %s, kinds %s, values %s, reads after assignment %s, re-probes %d, programs %d"
                         % (mods_ok, depth_ok, sorted(kinds_seen), sorted(holds_seen), mutated_reads, reprobes, okprog))
        if not chk.cov["corrupted_record_rejected"]:
            raise Broken("binding not demonstrated: no shard suitable for the corruption test")
        chk.assumptions += ["identifiers are the strings the check renders; a referenced name is observed by evaluating `n' and `(n)' in the importing environment "
                            "(macro keywords are only applied, never evaluated as variables)",
                            "drop-prefix (a chibi extension) is judged only where every imported name carries the prefix; import sets naming absent identifiers, "
                            "clashing renames and conflicting unions are 'an error' in R7RS and are not generated (TLC re-checks well-formedness of every case)",
                            "trusted: TLC, the renderer of import sets / libraries to Scheme text, the driver's probe"]
    return chk.finish()


def corrupt_demo(sc, vals):
    """Soundness rule 5, on an accepted shard: (1) make one invisible name of a case visible in the record, (2) replace one
    recorded value of a mutated immediate variable by the value it held when its library was loaded (a stale copy);
    TLC must reject exactly those cases, the second one as `aliasing'."""
    for g, v in vals:
        oks = sorted({x[0] for x in v["verdicts"] if x[1] == "ok"} - {x[0] for x in v["verdicts"] if x[1] != "ok"})
        if not oks or rejected_at(v["tlc"]):
            continue
        before = {x[0] for x in v["verdicts"] if x[1] == "rejected"}
        target = oks[len(oks) // 2]
        runs2, done, stale = [], False, None
        for run in v["runs"]:
            lines = []
            for x in run["lines"]:
                if not done and '"e":"Probed"' in x and ('"id":%d,' % target) in x:
                    ev = json.loads(x)
                    for ob in ev["obs"]:
                        if ob[1] == [] and ob[2] == ["err"]:
                            ob[1] = [1, ob[0]]
                            done = True
                            break
                    x = json.dumps(ev, separators=(",", ":"))
                elif stale is None and ('"e":"Reprobed"' in x or '"e":"Probed"' in x) and '"fix"' in x and ('"id":%d,' % target) not in x:
                    ev = json.loads(x)
                    if ev["id"] in oks:
                        for ob in ev["obs"]:
                            if len(ob[1]) == 4 and ob[1][0] == "fix" and ob[1][1] % 100000 > 0:
                                ob[1][1] -= ob[1][1] % 100000
                                stale = ev["id"]
                                break
                        x = json.dumps(ev, separators=(",", ":"))
                lines.append(x)
            runs2.append(dict(run, lines=lines))
        if not done or stale is None:
            continue
        v2 = validate(sc, g, runs2, v["label"] + "_corrupt")
        rej = {x[0] for x in v2["verdicts"] if x[1] == "rejected"}
        if rej != before | {target, stale}:
            raise Broken("binding not demonstrated: corrupted observations of cases %d, %d gave rejections %s" % (target, stale, sorted(rej)))
        if not any(x[0] == stale and x[2] == "aliasing" for x in v2["verdicts"]):
            raise Broken("binding not demonstrated: the stale value of case %d was not rejected as aliasing" % stale)
        return True
    return False


def replay(path):
    d = json.load(open(path))
    print("key: %s" % d.get("key"))
    if "import" in d:
        print("path: %s\nimport sets: %s\nTLC verdict: %s %s" % (d.get("path"), " ".join(d["import"]), d.get("reason"), d.get("verdict")))
        for name, src in d.get("libraries", {}).items():
            print(";; ---- %s\n%s" % (name, src))
        print(d.get("how", ""))
    else:
        print(json.dumps(d, indent=1)[:6000])
    return 0
