"""C05 -- tail calls run in constant space; deep recursion ends cleanly.
   Loop programs built by nesting the tail-position contexts of R7RS 3.5 run on the Core machine (3
   iterations, continuation depth sampled at every loop head: the machine rule 'a tail call pushes no
   frame' makes it constant) and on chibi (the same short run, compared event by event, plus a long run
   whose stack-top samples at iterations 1,2,3,10,1000,N-1 must be constant wherever the machine's are,
   and increasing where the machine's increase).  Non-tail recursion of growing depth is validated against
   Stack.tla (value while the stack may grow, error object beyond the maximum, context still usable)."""
import json, os, random, subprocess
import vlib, coregen as cg, corecommon as cc
from coregen import N, I, B, S, V, lam, app, prim, if_, begin, let, letstar, letrec, cond, case, and_, or_, when, unless, emit, apply_, thunk, named_let, do_loop, VOID, fresh, body_with_defines, lam_body, callcc
from vlib import Broken

DEPTH = N(["prim", "cons", [["const", ["s", "D"]], ["depth"]]], "(cons 'D (verif-stack-top))")

# tail contexts: each maps the (tail) call node to a node in which that call is still in tail position
CONTEXTS = {
    "if-then": lambda c: if_(prim("<", I(1), I(2)), c, I(0)),
    "if-else": lambda c: if_(prim("<", I(2), I(1)), I(0), c),
    "if-else-after-prim": lambda c: if_(prim("<", V("li"), I(0)), prim("+", V("lacc"), I(0)), c),
    "if-else-after-car": lambda c: if_(prim("<", V("li"), I(0)), prim("car", prim("list", V("lacc"))), c),
    "cond-after-prim-clause": lambda c: cond([(prim("<", V("li"), I(0)), prim("*", V("lacc"), I(2))), (prim("=", V("li"), I(-5)), prim("reverse", prim("list", V("li"))))], c),
    "if-else-after-set": lambda c: if_(prim("<", V("li"), I(0)), cg.set_("lacc", I(0)), c),
    "cond": lambda c: cond([(prim("=", I(1), I(2)), I(0))], c),
    "cond-clause": lambda c: cond([(prim("=", I(1), I(1)), c)], I(0)),
    "case": lambda c: case(I(3), [([1, 2], I(0)), ([3], c)], I(0)),
    "case-else": lambda c: case(I(9), [([1, 2], I(0))], c),
    "and": lambda c: and_(B(True), prim("<", I(1), I(2)), c),
    "or": lambda c: or_(B(False), prim("<", I(2), I(1)), c),
    "when": lambda c: when(B(True), I(1), c),
    "unless": lambda c: unless(B(False), I(1), c),
    "let": lambda c: let([(fresh("tl"), I(1))], c),
    "let*": lambda c: letstar([(fresh("tl"), I(1)), (fresh("tl"), I(2))], c),
    "letrec": lambda c: letrec([fresh("tl")], [I(1)], c),
    "begin": lambda c: begin(I(1), prim("+", I(1), I(2)), c),
    "lambda-body": lambda c: app(lam([], None, c), []),
    "named-let": lambda c: named_let(fresh("nl"), [(fresh("tl"), I(1))], c),
    "do-result": lambda c: do_loop(fresh("dj"), I(0), I(1), B(True), c, VOID),
    # R7RS 3.5 also makes these tail contexts: the receiver of `=>` in cond / case, the bodies of let-values / let*-values /
    # case-lambda clauses, the consumer of call-with-values, define-values bodies
    "cond-arrow": lambda c: (lambda t: N(["app", ["lam", [t], "", c.core], [["const", ["i", 1]]]], "(cond (1 => (lambda (%s) %s)) (else 0))" % (t, c.scm)))(fresh("tl")),
    "case-arrow-else": lambda c: (lambda t: N(["app", ["lam", [t], "", c.core], [["const", ["i", 9]]]], "(case 9 ((1 2) 0) (else => (lambda (%s) %s)))" % (t, c.scm)))(fresh("tl")),
    "let-values": lambda c: cg.let_values([([fresh("tl"), fresh("tl")], None, cg.values(I(1), I(2))), ([], fresh("tl"), cg.values(I(3)))], c),
    "let*-values": lambda c: cg.let_values([([fresh("tl")], fresh("tl"), cg.values(I(1), I(2)))], c, True),
    "cwv-consumer": lambda c: cg.cwv(cg.thunk(cg.values(I(1), I(2))), lam([fresh("tl"), fresh("tl")], None, c)),
    "case-lambda-body": lambda c: app(cg.case_lambda([([fresh("tl")], None, I(0)), ([], None, c)]), []),
    "internal-define": lambda c: app(lam_body([], None, body_with_defines([(fresh("idf"), I(1))], [c])), []),
}


def loop_program(ctxs, style, n, samples):
    """style: self | mutual | variadic | apply | nontail"""
    loop, other = fresh("loop"), fresh("loopb")
    i, acc = "li", "lacc"
    def call(target):
        args = [prim("+", V(i), I(1)), prim("+", V(acc), I(2))]
        if style == "apply":
            return apply_(V(target), prim("list", *args))
        if style == "variadic":
            return app(V(target), args + [I(7), I(8)])
        return app(V(target), args)
    def wrap(c):
        for name in reversed(ctxs):
            c = CONTEXTS[name](c)
        return c
    sample_test = B(True) if samples is None else or_(*[prim("=", V(i), I(s)) for s in samples])
    head = when(sample_test, emit(DEPTH))
    if style == "nontail":
        body = begin(head, if_(prim("=", V(i), I(n)), V(acc), prim("+", I(1), wrap(call(loop)))))
        defs = [(loop, lam([i, acc], None, body))]
    elif style == "mutual":
        body_a = begin(head, if_(prim("=", V(i), I(n)), V(acc), wrap(call(other))))
        body_b = if_(prim("=", V(i), I(n)), V(acc), wrap(call(loop)))
        defs = [(loop, lam([i, acc], None, body_a)), (other, lam([i, acc], None, body_b))]
    elif style == "variadic":
        body = begin(head, if_(prim("=", V(i), I(n)), V(acc), wrap(call(loop))))
        defs = [(loop, lam([i, acc], "lrest", body))]
    elif style == "case-lambda":     # "optional arities": the callee dispatches on the argument count, every clause body is a tail context
        body = begin(head, if_(prim("=", V(i), I(n)), V(acc), wrap(call(loop))))
        defs = [(loop, cg.case_lambda([([i], None, app(V(loop), [V(i), I(0)])), ([i, acc], None, body), ([i, acc], "lrest", V(acc))]))]
        return letrec([d[0] for d in defs], [d[1] for d in defs], begin(emit(app(V(loop), [I(0)])), emit(S("end"))))
    elif style == "delay-force":     # R7RS 4.2.5: an iterative lazy algorithm - forcing a chain of delay-force steps must not grow the stack
        body = begin(head, if_(prim("=", V(i), I(n)), cg.delay(V(acc)), cg.delay_force(wrap(call(loop)))))
        defs = [(loop, lam([i, acc], None, body))]
        return letrec([d[0] for d in defs], [d[1] for d in defs], begin(emit(cg.force(app(V(loop), [I(0), I(0)]))), emit(S("end"))))
    else:
        body = begin(head, if_(prim("=", V(i), I(n)), V(acc), wrap(call(loop))))
        defs = [(loop, lam([i, acc], None, body))]
    return letrec([d[0] for d in defs], [d[1] for d in defs], begin(emit(app(V(loop), [I(0), I(0)])), emit(S("end"))))


def run():
    chk = vlib.Check("C05")
    with vlib.Scratch("c05") as sc:
        build = vlib.build_repo(sc.sub("build"))
        vlib.build_probe(build, sc)
        rng = random.Random(chk.seed)
        names = sorted(CONTEXTS)
        combos = [[a] for a in names] + [[a, b] for a in names for b in names]
        if chk.thorough:
            combos += [[rng.choice(names) for _ in range(3)] for _ in range(5000)]
        else:
            rng.shuffle(combos)
            combos = [[a] for a in names] + combos[:110] + [[rng.choice(names) for _ in range(3)] for _ in range(40)]
        styles = ["self", "mutual", "variadic", "apply", "delay-force", "case-lambda"]
        bigN = 10 ** 7 if chk.thorough else 10 ** 5
        small, big, kinds = [], [], {}
        pid = 0
        for ci, ctxs in enumerate(combos):
            style = styles[ci % len(styles)]
            pid += 1
            state = cg._gensym[0]
            small.append((pid, cg.wrap_toplevel(loop_program(ctxs, style, 3, None))))
            cg._gensym[0] = state          # same identifiers in the long rendition
            n = bigN if (chk.thorough and ci % 50 == 0) else 10 ** 5
            big.append((pid, cg.wrap_toplevel(loop_program(ctxs, style, n, [1, 2, 3, 10, 1000, n - 1]))))
            kinds[pid] = "tail:%s:%s" % (style, "/".join(ctxs))
        for ci, ctxs in enumerate([[a] for a in names[:8]] + [[]]):
            pid += 1
            state = cg._gensym[0]
            small.append((pid, cg.wrap_toplevel(loop_program(ctxs, "nontail", 3, None))))
            cg._gensym[0] = state
            big.append((pid, cg.wrap_toplevel(loop_program(ctxs, "nontail", 600, [1, 2, 3, 10, 100, 599]))))
            kinds[pid] = "nontail:%s" % "/".join(ctxs)
        res_small = cc.run_all(build, sc, small, "c05s")
        res_big = cc.run_all(build, sc, big, "c05b", batch=20)
        extra = {}
        for pid_, _ in small:
            outb = res_big.get(pid_, {}).get("out", [])
            samples = [v[2][1] for v in outb if v[0] == "p" and v[1] == ["s", "D"] and v[2][0] == "i"]
            complete = res_big.get(pid_, {}).get("status") == "done" and outb[-1:] == [["s", "end"]]
            extra[pid_] = {"big": samples if complete else []}
        ok, bad, rs = cc.validate(sc, small, res_small, "c05", cfg="CoreRunR2L.cfg", extra=extra)
        for r in rs:
            chk.cov["states"] += r.distinct
            chk.cov["transitions"] += r.generated
        for kname, txt in bad.items():
            if isinstance(kname, tuple):
                raise Broken("Core machine invariant %s violated: %s" % (kname[1], txt[-800:]))
        for pid_, node in small:
            if pid_ in ok or pid_ not in bad:
                continue
            ctx = kinds[pid_]
            key = "c05:%s" % (ctx.split(":")[0] + ":" + (ctx.split(":")[1] + ":" if ctx.split(":")[1] == "delay-force" else "") + ctx.split(":")[-1].split("/")[0])
            chk.report(key, "loop %d (%s): stack samples of the long run %s / short run %s do not follow the machine (%s)" %
                       (pid_, ctx, extra[pid_]["big"], res_small.get(pid_, {}).get("status"), bad[pid_]),
                       "loop_%d.json" % pid_, {"key": key, "contexts": ctx, "scheme_short": node.scm, "long_run_samples": extra[pid_]["big"],
                                               "short_run": res_small.get(pid_), "long_run_status": res_big.get(pid_, {}).get("status")})
        chk.cov["traces_validated_against_impl"] = len(ok)
        chk.cov["loops"] = len(small)
        chk.cov["iterations_long_run"] = bigN
        # ---- deep non-tail recursion through the embedding API
        exe = vlib.compile_c(build, os.path.join(vlib.VERIF, "harness", "c", "deeprec.c"), sc.file("deeprec"))
        depths = [1, 10, 300, 1000, 5000, 10000, 40000, 100000, 300000, 1000000, 10000000, 5, -1000, -20000, -300000, -2000000, 7,
                  3000001, 3000900, 3001500, 3005000, 3020000, 3100000, 4000001, 4000300, 4005000, 4001000, 9,
                  5000001, 5000003, 5000100, 5000200, 5000900, 5001100, 5002000, 5000002, 11]
        if chk.thorough:
            depths += [2 ** k for k in range(4, 24)] + [-(2 ** k) for k in range(4, 22)]
        p = subprocess.run([exe] + [str(d) for d in depths], env=build.env(), cwd=vlib.REPO, stdout=subprocess.PIPE, stderr=subprocess.PIPE, timeout=900)
        tpath = sc.file("deep.ndjson")
        lines = [l for l in p.stdout.decode().splitlines() if l.startswith("{")]
        open(tpath, "w").write("\n".join(lines) + "\n")
        if p.returncode != 0 or len(lines) < len(depths):
            chk.report("c05:deep:crash", "deep recursion harness ended with status %d after %d of %d depths (crash instead of an error object)" % (p.returncode, len(lines), len(depths)),
                       "deep_crash.json", {"rc": p.returncode, "events": lines[-3:], "stderr": p.stderr.decode()[-500:]})
        else:
            # the same depths in a context whose heap is limited (the stack cannot always be grown): value or error object, no crash
            for hl in (["H2097152:8388608", "H2097152:16777216"] if not chk.thorough else ["H2097152:4194304", "H2097152:8388608", "H2097152:16777216", "H4194304:33554432"]):
                try:
                    p2 = subprocess.run([exe, hl] + [str(d) for d in depths[:37]], env=build.env(), cwd=vlib.REPO, stdout=subprocess.PIPE, stderr=subprocess.PIPE, timeout=2400)
                except subprocess.TimeoutExpired:
                    raise Broken("deep recursion harness with heap limit %s did not finish in 40 minutes (collector thrashing on a loaded machine?)" % hl[1:])
                l2 = [l for l in p2.stdout.decode().splitlines() if l.startswith("{")]
                if p2.returncode != 0 or len(l2) < len(depths[:37]):
                    chk.report("c05:deep:crash:heap-limit", "deep recursion harness with heap limit %s ended with status %d after %d of %d depths (crash instead of an error object)" % (hl[1:], p2.returncode, len(l2), len(depths[:37])),
                               "deep_crash_limited.json", {"rc": p2.returncode, "heap": hl, "events": l2[-3:], "stderr": p2.stderr.decode()[-500:]})
                    break
                lines += ['{"e":"Reset"}'] + l2
            open(tpath, "w").write("\n".join(lines) + "\n")
            r = vlib.run_tlc("Stack.tla", "Stack.cfg", sc.path, env={"TRACE": tpath}, workers=1, timeout=120)
            if r.error and "Postcondition" not in r.error:
                raise Broken("Stack.tla failed: %s" % r.error[:1000])
            if r.ok:
                chk.cov["traces_validated_against_impl"] += 1
                chk.cov["deep_recursion_depths"] = len(depths)
                chk.add_mc("Stack trace", r)
            else:
                import heapcommon as hc
                ra = hc.rejected_at(r)
                ev = json.loads(lines[ra[0] - 1]) if ra and ra[0] - 1 < len(lines) else {}
                chk.report("c05:deep:%s" % ev.get("outcome"), "deep recursion event rejected by Stack.tla: %s" % ev, "deep_rejected.json", {"event": ev, "all": lines})
        chk.cov["evaluations"] = len(small) + len(depths)
        chk.cov["distinct_nontrivial"] = len({k for k in kinds.values()})
        chk.cov["rule"] = "a case = a composition of <= 3 R7RS tail contexts x call style (self, mutual, variadic callee, apply, delay-force, case-lambda callee), or a non-tail loop, or one recursion depth"
        chk.cov["exhaustive"] = False
        chk.sample({"contexts": kinds[small[20][0]], "scheme": small[20][1].scm[:600], "long_run_stack_samples": extra[small[20][0]]["big"]})
        if len(ok) < len(small) * 0.5 and not chk.violations:
            raise Broken("too few loops validated")
        chk.assumptions += ["constant space for all N follows from 3 machine iterations by the machine rule 'a tail call pushes no continuation frame'; the implementation is sampled up to N = 10^5 (quick) / 10^7 (thorough)",
                            "frame size bounds of Stack.tla (2..24 slots per non-tail call) are generous constants, not derived from the compiler"]
    return chk.finish()


def replay(path):
    print(open(path).read()[:8000])
    return 0
