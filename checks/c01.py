"""C01 -- evaluating any program never corrupts memory; errors stay contained.
   Prim.tla: contract table of the memory-indexing primitives over a session's objects; the whole call
   space (every op x object of every type x boundary arguments) is enumerated by TLC from the spec, run in
   long-lived contexts of the real interpreter under guard (default build and a canary build with
   forced collections whose post-GC walk reports writes past an object's size into its alignment slack), and every
   outcome, the objects' contents after every call and a probe are validated by TLC (PrimTrace.tla).
   Hostile reader input: value or error, session intact, no crash."""
import json, os, random, re, subprocess
import vlib, heapcommon as hc
from vlib import Broken

DRIVER = os.path.join(vlib.VERIF, "harness", "scm", "prim-driver.scm")


def sexp(c):
    return "(" + " ".join(x if isinstance(x, str) else str(x) for x in c) + ")"


def scheme_string(b):
    out = ['"']
    for ch in b:
        o = ord(ch)
        if ch in '"\\':
            out.append("\\" + ch)
        elif 32 <= o < 127:
            out.append(ch)
        else:
            out.append("\\x%x;" % o)
    out.append('"')
    return "".join(out)


SEEDS = ["(a b . c)", "#(1 2 #(3))", "#u8(1 2 255)", "\"str\\n\\x41;\"", "#\\x41", "|sym bol|", "12345678901234567890123", "1/3", "-1.5e10",
         "#0=(a . #0#)", "'(quote `(a ,b ,@c))", "#;(x) y", "#|block|# z", "#t #f #true #false", "(1 . (2 . (3 . ())))", "#e1.5 #x-ff #b101"]


def escape_runs(rng):
    """long uninterrupted runs of escapes / tokens crossing the reader's internal buffer sizes"""
    n = rng.choice([1, 7, 31, 32, 33, 63, 64, 65, 127, 128, 129, 200, 1000])
    k = rng.randrange(8)
    if k >= 6:
        # datum labels climbing past the sizes of the reader's label table (24, 48, 96, ...), then references / definitions
        # of labels that were never defined or lie far outside the table
        labs, cur = [], 0
        top = rng.choice([22, 23, 24, 25, 47, 48, 49, 95, 96, 97, 200])
        while cur <= top:
            labs.append(cur)
            cur += rng.choice([1, 1, 7, 15, 16])
        body = " ".join("#%d=x%d" % (l, l) for l in labs)
        tail = rng.choice(["#%d#" % (top + d) for d in (1, 2, 16, 17, 100, 300, 5000)] + ["#%d=y" % (top + d) for d in (15, 16, 17, 40, 300, 5000)]
                          + ["#%d#" % rng.choice(labs), "#%d# #%d#" % (labs[-1], labs[0])])
        return "(%s %s)" % (body, tail)
    if k == 0:
        return '"' + "\\x1F600;" * n + '"'
    if k == 1:
        return "|" + "\\x3bb;" * n + "|"
    if k == 2:
        return '"' + "a" * (n - 1) + "\\x1F600;" * 3 + '"'
    if k == 3:
        return "sym" + "\u03bb" * n
    if k == 4:
        return "#\\x" + "1" * n
    return "1" * n + "/" + "3" * n


def mutate(rng, s):
    s = list(s)
    for _ in range(rng.randrange(1, 4)):
        k = rng.randrange(6)
        if k == 0 and s:
            del s[rng.randrange(len(s))]
        elif k == 1:
            s.insert(rng.randrange(len(s) + 1), rng.choice("()#\\\"|'`,.;0123456789abcxyz \n"))
        elif k == 2 and s:
            s[rng.randrange(len(s))] = chr(rng.randrange(1, 256))
        elif k == 3:
            s = s[:rng.randrange(len(s) + 1)]
        elif k == 4:
            s = list("(" * rng.randrange(1, 400)) + s
        else:
            s += list("#%d=" % rng.randrange(0, 99999999)) + s[:5]
    return "".join(s)


def session_file(path, rng, calls, ntexts):
    with open(path, "w") as f:
        f.write("(reset)\n")
        for i, c in enumerate(calls):
            if i and i % 400 == 0:
                f.write("(reset)\n")
            f.write(sexp(c) + "\n")
            if ntexts and rng.random() < ntexts:
                f.write("(readtext %s)\n" % scheme_string(mutate(rng, rng.choice(SEEDS))))
                if rng.random() < 0.5:
                    f.write("(readtext %s)\n" % scheme_string(escape_runs(rng).replace("\\\\", "\\")))


def run_session(build, sc, label, sess, env=None, timeout=240):
    t = sc.file("prim_%s.ndjson" % label)
    try:
        p = build.run([DRIVER, sess], env=env or {}, timeout=timeout)
        out, rc = p.stdout.decode(errors="replace"), p.returncode
    except subprocess.TimeoutExpired as ex:
        out, rc = (ex.stdout or b"").decode(errors="replace"), -9
    with open(t, "w") as f:
        for line in out.splitlines():
            if line.startswith("{"):
                f.write(line + "\n")
    return t, rc


NOHANDLER_DEFS = """
(define (deepcall k th) (if (= k 0) (th) (let ((r (deepcall (- k 1) th))) r)))
(define (calls-foreign . args) (string->number "42"))
(define s3 (make-string 3 #\\x))
(define ht69 (let ((t (make-hash-table))) (hash-table-set! t 1 10) (hash-table-set! t 2 20) t))
"""


def nohandler_phase(chk, build, sc, space, rng):
    """Errors nobody handles, through the embedding API (sexp_eval_string from C): the error object must come back, the
    session objects stay as they were and the context keeps working - whatever the shape of the VM stack at the
    moment of the error (deep non-tail frames, calls with thousands of arguments, a foreign call that just returned)."""
    exe = vlib.compile_c(build, os.path.join(vlib.VERIF, "harness", "c", "nohandler.c"), sc.file("nohandler"))
    drv = open(DRIVER).read()
    drv = drv[:drv.rindex("(main (cadr (command-line)))")]
    drv = "(import (srfi 95) (srfi 69))\n" + drv
    defs = sc.file("nohandler_defs.scm")
    open(defs, "w").write(drv + NOHANDLER_DEFS)
    errs = [c for c, cls in space if cls == "err" and c[0] in ("ref", "set", "car", "arith", "nonproc", "tail", "cur", "arity", "sub")]
    rng.shuffle(errs)
    n = 400 if chk.thorough else 90
    script = sc.file("nohandler_script.txt")
    cases = []
    with open(script, "w") as f:
        f.write('["reset"]\t(reset!)\n')
        for i, c in enumerate(errs[:n]):
            call = "(perform '%s)" % sexp(c)
            k = i % 9
            if k == 0:
                e = call
            elif k == 1:
                e = "(deepcall %d (lambda () %s))" % (rng.choice([3, 50, 1000, 4000]), call)
            elif k == 2:
                e = "(apply (lambda args %s) (make-list %d s3))" % (call, rng.choice([10, 1000, 7000]))
            elif k == 3:      # a foreign call from a frame high on the stack has just returned; the next error is raised by an inlined primitive
                e = "(begin (apply calls-foreign (make-list %d s3)) (apply (lambda args %s) (make-list %d s3)))" % (rng.choice([6000, 3000]), call, rng.choice([7000, 2500, 6500]))
            elif k == 4:
                e = "(deepcall %d (lambda () (apply (lambda args %s) (make-list %d s3))))" % (rng.choice([10, 500]), call, rng.choice([100, 5000]))
            elif k == 5:
                e = "(begin (deepcall 3000 (lambda () (calls-foreign 1 2 3))) %s)" % call
            # the error is raised inside a procedure that a FOREIGN function calls back (a nested run of the VM)
            elif k == 6:
                e = "(sort (list 3 1 2) < (lambda (x) %s))" % call
            elif k == 7:
                e = "(deepcall %d (lambda () (sort (vector 5 4 3 2 1) (lambda (a b) %s))))" % (rng.choice([2, 300]), call)
            else:
                e = "(hash-table-walk ht69 (lambda (kk vv) %s))" % call
            cases.append(c)
            f.write(json.dumps(c) + "\t" + e + "\n")
    t = sc.file("nohandler.ndjson")
    try:
        p = subprocess.run([exe, defs, script], env=build.env(), cwd=vlib.REPO, stdout=subprocess.PIPE, stderr=subprocess.PIPE, timeout=600)
        out, rc = p.stdout.decode(errors="replace"), p.returncode
    except subprocess.TimeoutExpired as ex:
        out, rc = (ex.stdout or b"").decode(errors="replace"), -9
    evs = [json.loads(l) for l in out.splitlines() if l.startswith("{")]
    # the reset line is reported as a Reset event for the trace specification
    for e in evs:
        if e.get("e") == "Call" and e.get("c") == ["reset"]:
            e.clear()
            e.update({"e": "Reset"})
    evs = [e for e in evs if not (e.get("e") == "Begin" and e.get("id") == 1)]
    vlib.write_ndjson(t, evs)
    if not evs or evs[-1].get("e") != "Done":
        begun = [e.get("id") for e in evs if e.get("e") == "Begin"]
        running = open(script).read().splitlines()[begun[-1] - 1] if begun else "?"
        shape = ("callback-from-foreign" if ("(sort " in running or "hash-table-walk" in running) else
                 "wide-apply-after-foreign-call" if "calls-foreign" in running and "apply (lambda" in running else ("deep" if "deepcall" in running else "plain"))
        key = "c01:nohandler:crash:%s" % shape
        chk.report(key, "embedding harness without a handler died (exit status %d) while evaluating %s" % (rc, running[:300]),
                   "nohandler_crash.json", {"key": key, "rc": rc, "running": running})
        return 0
    r = vlib.run_tlc("PrimTrace.tla", "PrimTrace.cfg", sc.path, env={"TRACE": t}, workers=1, timeout=600, heap="3g")
    if r.error and "Postcondition" not in r.error:
        raise Broken("PrimTrace failed on the no-handler trace: %s" % r.error[:1500])
    if r.ok:
        chk.cov["nohandler_calls_validated"] = len(cases)
        return len(cases)
    ra = hc.rejected_at(r)
    idx = (ra[0] - 1) if ra else max(0, r.depth - 2)
    ev = evs[idx] if idx < len(evs) else {}
    c = ev.get("c", ["?"])
    key = "c01:nohandler:%s:%s" % (c[0], ev.get("class"))
    chk.report(key, "no-handler embedding run: event %d rejected by Prim.tla: %s" % (idx + 1, json.dumps(ev)[:300]), "nohandler_rejected.json", {"key": key, "event": ev})
    return 0


def run():
    chk = vlib.Check("C01")
    with vlib.Scratch("c01") as sc:
        # (a -DSEXP_GC_PAD=16 canary build was planned, but that configuration of the unchanged tree crashes while
        #  generating the FFI stubs; the alignment slack of every object - up to 31 bytes, zero-filled by the
        #  allocator - is used as the canary instead: hook H2 reports any non-zero slack byte after a collection)
        build = vlib.build_repo(sc.sub("build"))
        canary = build
        # ---- MC of the contract model + dump of the enumerated call space
        r = vlib.run_tlc("Prim.tla", "PrimMC.cfg", sc.path, workers=8, timeout=900)
        vlib.require_tlc_ok(r, "PrimMC")
        if r.violated:
            raise Broken("Prim.tla violates %s" % r.violated)
        chk.add_mc("PrimMC", r)
        d = vlib.run_tlc("Prim.tla", "PrimDump.cfg", sc.path, workers=1, timeout=300)
        m = re.search(r'<<"CALLS", "(.*)">>', d.out)
        if not m:
            raise Broken("could not obtain the call space from TLC: %s" % d.out[-800:])
        space = json.loads(m.group(1).replace('\\"', '"'))
        # rule 2: mutators whose outcome class is "any" could legitimately change the objects: not generated
        calls = [c for c, cls in space if not (cls == "any" and c[0] in ("set", "fill"))]
        chk.cov["call_classes"] = {k: sum(1 for _, cl in space if cl == k) for k in ("val", "err", "errv", "any", "shape")}
        chk.cov["call_space"] = len(space)
        rng = random.Random(chk.seed)
        sessions = []
        nsess = 32 if chk.thorough else 4
        for i in range(nsess):
            order = list(calls)
            rng.shuffle(order)
            if not chk.thorough:
                order = order[: len(order) // 2] if i % 2 else order[len(order) // 2:]
            p = sc.file("sess_%d.scm" % i)
            session_file(p, rng, order, 0.08)
            sessions.append((i, p, len(order)))

        def go(s):
            i, p, n = s
            b = canary if i % 2 else build
            env = {}
            if i % 2:
                env = {"CHIBI_VERIF_GC": "seed=%d,p=%d" % (chk.seed + i, 499 + 100 * i), "CHIBI_VERIF_TRACE": sc.file("canary_%d.ndjson" % i), "CHIBI_VERIF_WALK": "1", "CHIBI_VERIF_POISON": "1"}
            t, rc = run_session(b, sc, str(i), p, env)
            r = vlib.run_tlc("PrimTrace.tla", "PrimTrace.cfg", sc.path, env={"TRACE": t}, workers=1, timeout=900, heap="4g")
            return s, t, rc, r, env
        total_calls = 0
        for s, t, rc, r, env in vlib.parallel(go, sessions, jobs=6):
            if r.error and "Postcondition" not in r.error:
                raise Broken("PrimTrace failed: %s" % r.error[:1500])
            evs = vlib.read_ndjson(t)
            ncalls = sum(1 for e in evs if e.get("e") in ("Call", "Read"))
            if r.ok and rc == 0:
                chk.cov["traces_validated_against_impl"] += 1
                total_calls += ncalls
            else:
                ra = hc.rejected_at(r)
                idx = (ra[0] - 1) if ra else max(0, r.depth - 2)
                ev = evs[idx] if idx < len(evs) else {}
                prev = evs[idx - 1] if idx > 0 else {}
                if not evs or evs[-1].get("e") != "Done":
                    # the call that was running: the session entry whose Begin has no result
                    begun = [e.get("id") for e in evs if e.get("e") == "Begin"]
                    entries = [l for l in open(s[1]).read().splitlines() if not l.startswith("(reset)")]
                    running = entries[begun[-1] - 1] if begun and begun[-1] - 1 < len(entries) else "?"
                    what = running.split(" ")[0].strip("(") if running != "?" else "?"
                    if what == "readtext":
                        shape = "reader:" + ("hex-escape-run" if "\\\\x" in running or "\\x" in running else "other")
                    else:
                        shape = " ".join(running.strip("()").split(" ")[:3])
                    key = "c01:crash-or-hang:%s" % shape
                    ev = dict(ev, running=running[:300])
                else:
                    c = ev.get("c", ["?"])
                    key = "c01:%s:%s:%s" % (c[0], c[2] if len(c) > 2 else "", ev.get("class"))
                chk.report(key, "session %d (%s build): event %d rejected by Prim.tla: %s (exit status %d)" % (s[0], "forced-gc" if s[0] % 2 else "plain", idx + 1, json.dumps(ev)[:300], rc),
                           "session_%d.json" % s[0], {"key": key, "event": ev, "previous": prev, "rc": rc, "tlc": r.summary()})
            # canary build: post-GC walks must be clean (a write past an object's size dirties pad/slack bytes)
            if env:
                gcs = [e for e in vlib.read_ndjson(env["CHIBI_VERIF_TRACE"]) if e.get("e") in ("Gc", "Crash")]
                dirty = [e for e in gcs if e.get("e") == "Crash" or any(e.get("anom", []))]
                chk.cov["canary_collections"] = chk.cov.get("canary_collections", 0) + len(gcs)
                if dirty:
                    e = dirty[0]
                    key = "c01:heap-anomaly:%s" % (e.get("first", "crash").split(" ")[0])
                    chk.report(key, "canary build: post-GC heap walk anomaly / crash during session %d: %s" % (s[0], json.dumps(e)[:300]),
                               "canary_%d.json" % s[0], {"key": key, "event": e})
        total_calls += nohandler_phase(chk, build, sc, space, rng)
        chk.cov["calls_validated"] = total_calls
        chk.cov["evaluations"] = total_calls
        chk.cov["distinct_nontrivial"] = len(calls)
        chk.cov["rule"] = "the call space is enumerated by TLC from Prim.tla (op x object of every type x boundary indices incl. fixnum extremes and bignums x values); sessions are seeded permutations; plus mutated reader inputs"
        chk.cov["exhaustive"] = chk.thorough
        evs0 = vlib.read_ndjson(sc.file("prim_0.ndjson"))
        chk.sample([e for e in evs0 if e.get("e") == "Call"][:5])
        if total_calls < 1000 and not chk.violations:
            raise Broken("only %d calls validated" % total_calls)
        chk.assumptions += ["silent out-of-bounds READS that return a plausible value and wild jumps that happen not to crash are below the abstraction of any trace: not decided (a sanitizer would be the tool)",
                            "calls whose outcome R7RS leaves open ('any' class mutators, inexact indices) are not generated"]
    return chk.finish()


def replay(path):
    print(open(path).read()[:6000])
    return 0
