"""C10 -- unreachable memory is recycled and the heap stays well-formed.
   MC of Heap.tla (allocator/tiling + saves configs), TLC-generated behaviours replayed on the real
   allocator/collector (micro heap) and validated by HeapTrace.tla, whole-program runs validated by
   HeapSummary.tla (every collection of every workload)."""
import json, os, subprocess, sys, glob
import vlib, heapcommon as hc
from vlib import Broken

CHURN = os.path.join(vlib.VERIF, "harness", "scm", "churn.scm")


def macro_runs(chk, sc, build, jobs):
    """jobs: list of (label, argv, heap).  Returns path of the concatenated trace."""
    def one(job):
        label, argv, heap = job
        t = sc.file("macro_%s.ndjson" % label)
        if os.path.exists(t):
            os.remove(t)
        try:
            p = build.run((["-h", heap] if heap else []) + argv, env={"CHIBI_VERIF_TRACE": t, "CHIBI_VERIF_WALK": "1"}, timeout=600)
            rc = p.returncode
            out = p.stdout.decode(errors="replace")[-300:]
        except subprocess.TimeoutExpired:
            rc, out = -9, "timeout"
        return label, t, rc, out
    return vlib.parallel(one, jobs, jobs=min(len(jobs), vlib.NCPU))


def validate_macro(chk, sc, results, bound=(16, 1)):
    allp = sc.file("macro_all.ndjson")
    index = []
    with open(allp, "w") as out:
        for label, t, rc, txt in results:
            evs = vlib.read_ndjson(t)
            n_gc = sum(1 for e in evs if e.get("e") == "Gc")
            index.append((label, n_gc, rc))
            out.write('{"e":"Run","label":"%s"}\n' % label)
            for e in evs:
                if e.get("e") in ("Gc", "Grow", "Crash"):
                    import json
                    out.write(json.dumps(e, separators=(",", ":")) + "\n")
    cfg = sc.file("HeapSummary.cfg")
    with open(cfg, "w") as f:
        f.write("SPECIFICATION Spec\nCONSTANTS GrowNum = %d\n GrowDen = %d\nINVARIANT Bounded\nPOSTCONDITION Accepted\nCHECK_DEADLOCK FALSE\n" % bound)
    r = vlib.run_tlc("HeapSummary.tla", cfg, sc.path, env={"TRACE": allp}, workers=1, timeout=900, heap="8g")
    return r, allp, index


def preserve_scripts(rng, n, steps):
    """op histories over sexp_preserve_object / sexp_release_object: FIFO windows, LIFO, random order, repeated
    preservation of one object, releases of objects that are not preserved; a collection every few steps"""
    out = []
    for s in range(n):
        style = ["fifo", "lifo", "random", "multi"][s % 4]
        lines, alive, held, nid = [], [], [], 0
        for step in range(steps):
            r = rng.random()
            if r < 0.35 or not alive:
                nid += 1
                lines.append("A %d %d" % (nid, rng.choice([1, 3, 40, 1000, 5000])))
                alive.append(nid)
                lines.append("P %d" % nid)
                held.append(nid)
                if style == "multi" and rng.random() < 0.4:
                    lines.append("P %d" % nid)
                    held.append(nid)
            elif r < 0.75 and held:
                if style == "fifo":
                    x = held.pop(0)
                elif style == "lifo":
                    x = held.pop()
                else:
                    x = held.pop(rng.randrange(len(held)))
                lines.append("R %d" % x)
            elif r < 0.8 and alive:
                lines.append("R %d" % rng.choice(alive))        # possibly not preserved (any more): a no-op
                x = lines[-1].split()[1]
                if int(x) in held:
                    held.remove(int(x))
            else:
                lines.append("C")
                alive = [a for a in alive if a in held]
            if nid > 3500:
                break
        lines.append("C")
        out.append("\n".join(lines) + "\n")
    return out


def preserve_phase(chk, build, sc, rng):
    """Preserve.tla: the embedding API's root multiset; every collection must reclaim exactly the unpreserved objects."""
    exe = vlib.compile_c(build, os.path.join(vlib.VERIF, "harness", "c", "preserve.c"), sc.file("preserve"))
    scripts = preserve_scripts(rng, 40 if chk.thorough else 12, 3000 if chk.thorough else 700)

    def one(i_s):
        i, text = i_s
        sp = sc.file("pres_%d.txt" % i)
        open(sp, "w").write(text)
        try:
            p = subprocess.run([exe, sp], env=build.env(), cwd=vlib.REPO, stdout=subprocess.PIPE, stderr=subprocess.PIPE, timeout=600)
            out, rc = p.stdout.decode(errors="replace"), p.returncode
        except subprocess.TimeoutExpired:
            out, rc = "", -9
        t = sc.file("pres_%d.ndjson" % i)
        open(t, "w").write("\n".join(l for l in out.splitlines() if l.startswith("{")) + "\n")
        r = vlib.run_tlc("Preserve.tla", "Preserve.cfg", sc.path, env={"TRACE": t}, workers=1, timeout=600, heap="2g")
        return i, t, rc, r
    okn = 0
    for i, t, rc, r in vlib.parallel(one, list(enumerate(scripts)), jobs=6):
        if r.error and "Postcondition" not in r.error:
            raise Broken("Preserve.tla failed: %s" % r.error[:1000])
        if r.ok and rc == 0:
            okn += 1
            continue
        evs = vlib.read_ndjson(t)
        ra = hc.rejected_at(r)
        idx = (ra[0] - 1) if ra else len(evs) - 1
        ev = evs[idx] if 0 <= idx < len(evs) else {}
        key = "preserve-api:%s" % ("crash" if rc != 0 else ("collect-reclaims-wrong-set" if ev.get("e") == "Collect" else ev.get("e", "?")))
        chk.report(key, "preserve/release history %d (%s order): event %d rejected by Preserve.tla: %s (exit %d)" % (i, ["fifo", "lifo", "random", "multi"][i % 4], idx + 1, json.dumps(ev)[:200], rc),
                   "preserve_%d.json" % i, {"key": key, "event": ev, "script": open(sc.file("pres_%d.txt" % i)).read()[:20000]})
    chk.cov["preserve_api_histories"] = okn
    return okn


def run():
    chk = vlib.Check("C10")
    with vlib.Scratch("c10") as sc:
        build = vlib.build_repo(sc.sub("build"))
        # ---- MC: the design
        hc.mc(chk, sc, "A")
        hc.mc(chk, sc, "C")
        if chk.thorough:
            hc.mc(chk, sc, "A4", timeout=3000)
        # ---- GEN + TV on the micro heap
        n = 60 if chk.thorough else 12
        hists = hc.gen_behaviours(sc, "HeapGen.cfg", num=n, depth=260, seed=chk.seed)
        hists2 = hc.gen_behaviours(sc, "HeapGenBig.cfg", num=n, depth=260, seed=chk.seed + 1)
        lim = 4000 if chk.thorough else 600
        a1 = hc.micro_campaign(chk, sc, build, hists[:lim], 12, 36, "fast")
        a2 = hc.micro_campaign(chk, sc, build, hists2[:lim], 6, 96, "slow")
        chains = hc.chain_scripts()
        chk.rng.shuffle(chains)
        a3 = hc.micro_campaign(chk, sc, build, chains[:len(chains) if chk.thorough else 60], 8, 64, "chain", batch=90)
        chk.cov["micro_behaviours"] = {"fast_path": a1, "slow_path": a2, "ephemeron_chains": a3}
        chk.cov["traces_validated_against_impl"] += preserve_phase(chk, build, sc, chk.rng)
        # ---- TV of whole programs: every collection of every workload
        iters = 400000 if chk.thorough else 60000
        jobs = []
        for seed in range(1, (9 if chk.thorough else 4)):
            for flavour, heap in ((0, "1M"), (1, "300K"), (2, "2M")):
                jobs.append(("churn_s%d_f%d" % (seed + chk.seed * 100, flavour), [CHURN, str(seed + chk.seed * 100), str(iters), str(32 * (1 + seed % 4)), str(flavour)], heap))
        if chk.thorough:
            for t in sorted(glob.glob(os.path.join(vlib.REPO, "lib", "**", "*test.sld"), recursive=True)) + \
                     sorted(glob.glob(os.path.join(vlib.REPO, "lib", "srfi", "*", "test.sld"))):
                rel = os.path.relpath(t, os.path.join(vlib.REPO, "lib"))[:-4]
                name = "(" + rel.replace("/", " ") + ")"
                jobs.append(("corpus_" + rel.replace("/", "_"), ["-e", "(import %s)" % name, "-e", "(run-tests)"], "1M"))
            jobs.append(("corpus_r7rs", [os.path.join(vlib.REPO, "tests", "r7rs-tests.scm")], "1M"))
        results = macro_runs(chk, sc, build, jobs)
        bad = [(l, rc, o) for l, t, rc, o in results if rc != 0 and l.startswith("churn")]
        if bad:
            raise Broken("churn workload did not run: %s" % bad[:3])
        r, allp, index = validate_macro(chk, sc, results)
        chk.cov["macro_runs"] = [dict(label=l, collections=n, rc=rc) for l, n, rc in index]
        ngc = sum(n for _, n, _ in index)
        if ngc < 50:
            raise Broken("macro runs produced only %d collections" % ngc)
        if r.error and "Postcondition" not in r.error:
            raise Broken("HeapSummary failed: %s" % r.error[:1500])
        if not r.ok:
            ra = hc.rejected_at(r)
            evs = vlib.read_ndjson(allp)
            idx = (ra[0] - 1) if ra else max(0, r.depth - 2)
            ev = evs[idx] if idx < len(evs) else {}
            run_label = [e for e in evs[:idx + 1] if e.get("e") == "Run"][-1:] or [{}]
            key = "macro:%s:%s" % (r.violated or "rejected", (ev.get("first") or "").split(" ")[0])
            chk.report(key, "whole-program heap trace rejected by HeapSummary at event %d (%s) of %s" % (idx + 1, r.violated or "not explained", run_label[0].get("label")),
                       "macro_rejected.json", {"key": key, "run": run_label[0], "event": ev, "tlc": r.summary()})
        else:
            chk.cov["traces_validated_against_impl"] += len(index)
            chk.cov["collections_validated"] = ngc
        # ---- a program with a tiny live set (harness/c/rampc.c, through the C API) must be served entirely from recycled storage: its heap may not
        #      exceed 3 x the initial segment (the unchanged tree never adds a segment; the bound is deliberately generous)
        rexe = vlib.compile_c(build, os.path.join(vlib.VERIF, "harness", "c", "rampc.c"), sc.file("rampc"))

        def ramp_one(job):
            label, n, step = job
            t = sc.file("macro_%s.ndjson" % label)
            try:
                p = subprocess.run([rexe, str(n), str(step)], env=build.env({"CHIBI_VERIF_TRACE": t, "CHIBI_VERIF_WALK": "1"}), cwd=vlib.REPO,
                                   stdout=subprocess.PIPE, stderr=subprocess.PIPE, timeout=900)
                return label, t, p.returncode, p.stdout.decode(errors="replace")[-100:]
            except subprocess.TimeoutExpired:
                return label, t, -9, "timeout"
        rjobs = [("rampc_%d" % st, 120000 if chk.thorough else 40000, st) for st in ([4, 1, 7, 12, 33] if chk.thorough else [4, 7 + chk.seed % 5])]
        rres = vlib.parallel(ramp_one, rjobs, jobs=4)
        r2, allp2, index2 = validate_macro(chk, sc, rres, bound=(3, 1))
        if r2.error and "Postcondition" not in r2.error and "Invariant" not in (r2.error or ""):
            raise Broken("HeapSummary failed on the ramp workload: %s" % r2.error[:1000])
        if any(rc != 0 for _, _, rc in index2):
            chk.report("macro:ramp:crash", "ramp workload ended with a non-zero status: %s" % index2, "ramp_crash.json", {"runs": index2})
        elif r2.ok:
            chk.cov["traces_validated_against_impl"] += len(index2)
            chk.cov["ramp_collections_validated"] = sum(n for _, n, _ in index2)
        else:
            chk.report("macro:ramp:%s" % (r2.violated or "rejected"), "a program with a tiny live set made the heap grow beyond 3 x its initial size (or its heap trace was rejected): %s" % (r2.violated or "rejected"),
                       "ramp_rejected.json", {"tlc": r2.summary(), "runs": index2})
        chk.cov["evaluations"] = chk.cov["traces_validated_against_impl"]
        chk.cov["distinct_nontrivial"] = sum(chk.cov["micro_behaviours"].values())
        chk.cov["rule"] = ("behaviours = distinct action sequences (alloc/set/root/collect/grow) produced by TLC -simulate from Heap.tla, "
                           "replayed on the real allocator; non-trivial = contains at least one collection; macro = every collection of each workload")
        chk.cov["exhaustive"] = True
        chk.assumptions += ["micro heap uses a dummy context as sexp_bootstrap_context does; default 64-bit configuration (32-byte chunks)",
                            "post-GC walker (hook H2) is validated against Heap.tla on the micro heap, then trusted for whole-program summaries"]
    return chk.finish()


def replay(path):
    print(open(path).read()[:4000])
    return 0
