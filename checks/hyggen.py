"""Generator of programs with syntax-rules macros for C07 / Hygiene.tla.

A program is ONE expression:
   (letrec-syntax|let-syntax (outer macro definitions)
     ((lambda (UVA UVB UVC UVD)
         [(let-syntax|letrec-syntax (macro definitions that close over the user variables) statements ...)]
         statements ...  (emit UVA) ... 0)
      1 2 3 4))
All expressions are integer valued; `emit` makes intermediate values observable.  Macro definitions are generated
from a small typed grammar (templates introduce temporaries by let / lambda / named let / do, bind identifiers supplied
by the user, assign them, iterate over one and two levels of ellipsis, recurse, dispatch on literals, define other
macros, and refer freely to keywords, primitives and - when defined inside the user's lambda - to the user's variables).
The names of the template temporaries are drawn from the same pool the user variables are later renamed into."""
import random
import sexpr

USERS = ["UVA", "UVB", "UVC", "UVD"]
LOCALS = ["UVE", "UVF"]
TMPS = ["t", "tmp", "x", "temp", "loop", "i", "acc", "v", "n", "k"]
KEYWORDS = ["if", "let", "lambda", "begin", "set!", "cond", "else", "=>", "and", "or", "when", "unless", "do", "quote", "let*", "letrec",
            "define", "define-syntax", "syntax-rules", "let-syntax", "letrec-syntax"]
PRIMS = ["+", "*", "<", "list", "car", "cons", "not", "="]
PATNAMES = ["a", "b", "c", "e", "r", "body", "name", "val", "id", "rest", "otherwise"]


class G:
    def __init__(self, rng):
        self.r = rng
        self.n = 0

    def pick(self, xs):
        return self.r.choice(xs)

    # ---------------------------------------------------------------- template expressions
    def texpr(self, pv, free, depth, tmps=()):
        """integer-valued template expression over expression pattern variables pv, introduced temporaries in scope
        tmps, and free references `free` (user variables visible where the macro is defined)"""
        r = self.r
        leaves = list(pv) + list(tmps) + list(free)
        if depth <= 0 or r.random() < 0.25:
            return self.pick(leaves) if leaves and r.random() < 0.85 else str(r.randrange(0, 9))
        k = r.randrange(9)
        sub = lambda t=tmps: self.texpr(pv, free, depth - 1, t)
        if k == 0:
            t = self.pick(TMPS)
            return "(let ((%s %s)) %s)" % (t, sub(), self.texpr(pv, free, depth - 1, tuple(tmps) + (t,)))
        if k == 1:
            t = self.pick(TMPS)
            return "((lambda (%s) %s) %s)" % (t, self.texpr(pv, free, depth - 1, tuple(tmps) + (t,)), sub())
        if k == 2:
            return "(if (< %s %s) %s %s)" % (sub(), sub(), sub(), sub())
        if k == 3:
            return "(+ %s %s)" % (sub(), sub())
        if k == 4:
            return "(begin (emit %s) %s)" % (sub(), sub())
        if k == 5:
            t, u = self.r.sample(TMPS, 2)
            return "(let* ((%s %s) (%s (+ %s 1))) %s)" % (t, sub(), u, t, self.texpr(pv, free, depth - 1, tuple(tmps) + (t, u)))
        if k == 6:
            return "(cond ((< %s %s) %s) ((+ %s 0) => (lambda (%s) (+ %s 1))) (else %s))" % (sub(), sub(), sub(), sub(), "v", "v", sub())
        if k == 7:
            t = self.pick(TMPS)
            return "(or (and (< %s %s) %s) %s)" % (sub(), sub(), sub(), sub())
        lp, i = self.r.sample([t for t in TMPS if t not in tmps], 2)      # the loop tag must not shadow a temporary used as a number
        return "(let %s ((%s 0) (acc2 %s)) (if (< %s 2) (%s (+ %s 1) (+ acc2 %s)) acc2))" % (lp, i, sub(), i, lp, i, self.texpr(pv, free, depth - 1, tuple(tmps) + (i,)))

    # ---------------------------------------------------------------- macro kinds: (definition text, use generator)
    def macro(self, name, free, earlier):
        """returns (spec text, use function(argmaker, idmaker) -> expression text, is_recursive)"""
        r = self.r
        kind = r.randrange(9)
        d = r.randrange(1, 3)
        if kind == 0:          # fixed arity
            k = r.randrange(1, 4)
            pv = r.sample(PATNAMES[:5], k)
            spec = "(syntax-rules () ((_ %s) %s))" % (" ".join(pv), self.texpr(pv, free, d + 1))
            return spec, (lambda ue, ui: "(%s %s)" % (name, " ".join(ue() for _ in range(k)))), False
        if kind == 1:          # binds an identifier supplied by the user around a body supplied by the user
            t = self.pick(TMPS)
            spec = ("(syntax-rules () ((_ id e body) (let ((%s %s)) (let ((id (+ %s e))) (+ body %s)))))"
                    % (t, self.texpr(["e"], free, d), t, self.texpr(["e"], free, d, (t,))))
            return spec, (lambda ue, ui: (lambda v: "(%s %s %s %s)" % (name, v, ue(), ue(v)))(ui())), False
        if kind == 2:          # variadic, recursive
            t = self.pick(TMPS)
            spec = ("(syntax-rules () ((_) 0) ((_ e) e) ((_ e r ...) (let ((%s e)) (if (< %s %s) (%s r ...) (+ %s (%s r ...))))))"
                    % (t, t, self.texpr([], free, 1, (t,)), name, t, name))
            return spec, (lambda ue, ui: "(%s %s)" % (name, " ".join(ue() for _ in range(r.randrange(0, 4))))), True
        if kind == 3:          # one ellipsis level with a binder inside the repeated sub-template
            t = self.pick(TMPS)
            spec = "(syntax-rules () ((_ a e ...) (+ a (let ((%s e)) %s) ...)))" % (t, self.texpr(["a"], free, d, (t,)))
            return spec, (lambda ue, ui: "(%s %s)" % (name, " ".join(ue() for _ in range(r.randrange(1, 4))))), False
        if kind == 4:          # two ellipsis levels
            t = self.pick(TMPS)
            spec = "(syntax-rules () ((_ (a b ...) ...) (+ 0 (let ((%s a)) (+ %s (* 2 b) ...)) ...)))" % (t, t)
            return spec, (lambda ue, ui: "(%s %s)" % (name, " ".join("(%s)" % " ".join(ue() for _ in range(r.randrange(1, 4))) for _ in range(r.randrange(0, 3))))), False
        if kind == 5:          # assigns identifiers supplied by the user
            t = self.pick(TMPS)
            spec = "(syntax-rules () ((_ id ...) (let ((%s %s)) (set! id (+ id %s)) ... (+ %s id ...))))" % (t, self.texpr([], free, 1), t, t)
            return spec, (lambda ue, ui: "(%s %s)" % (name, " ".join(ui(False) for _ in range(r.randrange(0, 3))))), False
        if kind == 6:          # dispatch on a literal
            lit = self.pick(["otherwise", "else", "=>", "is"])
            spec = ("(syntax-rules (%s) ((_ e (%s r)) (+ r 1000)) ((_ e (v r)) (if (= e v) r %s)))" % (lit, lit, self.texpr(["e"], free, 1)))
            def use(ue, ui, lit=lit):
                if r.random() < 0.5:
                    return "(%s %s (%s %s))" % (name, ue(), lit, ue())
                return "(%s %s (%s %s))" % (name, ue(), ui(False), ue())       # a user VARIABLE in the literal position (possibly renamed to the literal's name)
            return spec, use, False
        if kind == 7:          # macro-defining macro: the inner macro's name is supplied by the user of the outer one
            t = self.pick(TMPS)
            spec = ("(syntax-rules () ((_ name val body) (let-syntax ((name (syntax-rules () ((_ q) (let ((%s val)) (+ %s q %s)))))) body)))"
                    % (t, t, self.texpr([], free, 1, (t,))))
            def use(ue, ui):
                self.n += 1
                inner = "getter%d" % self.n
                return "(%s %s %s (+ (%s %s) (%s %s)))" % (name, inner, ue(), inner, ue(), inner, ue())
            return spec, use, False
        # a loop-introducing macro (do / named let in the template, body supplied by the user runs inside it)
        lp, i = r.sample(TMPS, 2)
        if r.random() < 0.5:
            spec = "(syntax-rules () ((_ cnt body) (let %s ((%s 0) (s 0)) (if (< %s cnt) (%s (+ %s 1) (+ s body)) s))))" % (lp, i, i, lp, i)
        else:
            spec = "(syntax-rules () ((_ cnt body) (do ((%s 0 (+ %s 1)) (s 0 (+ s body))) ((= %s cnt) s))))" % (i, i, i)
        return spec, (lambda ue, ui: "(%s %d %s)" % (name, r.randrange(0, 4), ue())), False

    # ---------------------------------------------------------------- user code
    def program(self):
        r = self.r
        outer, inner = [], []
        uses = []
        for j in range(r.randrange(2, 5)):
            nm = "mo%d" % j
            spec, use, rec = self.macro(nm, [], outer)
            outer.append((nm, spec, rec))
            uses.append(use)
        for j in range(r.randrange(0, 3)):
            nm = "mi%d" % j
            spec, use, rec = self.macro(nm, r.sample(USERS, 2), inner)
            inner.append((nm, spec, rec))
            uses.append(use)
        scope = list(USERS)

        def ue(extra=None, depth=2):
            vs = scope + ([extra] if extra else [])
            if depth <= 0 or r.random() < 0.3:
                return self.pick(vs) if r.random() < 0.8 else str(r.randrange(0, 9))
            k = r.randrange(6)
            if k == 0:
                return "(+ %s %s)" % (ue(extra, depth - 1), ue(extra, depth - 1))
            if k == 1:
                return "(if (< %s %s) %s %s)" % (ue(extra, depth - 1), ue(extra, depth - 1), ue(extra, depth - 1), ue(extra, depth - 1))
            if k == 2:
                loc = self.pick(LOCALS)
                return "(let ((%s %s)) (+ %s %s))" % (loc, ue(extra, depth - 1), loc, ue(extra, depth - 1))
            return self.pick(uses)(lambda e2=None: ue(e2 or extra, depth - 1), ui)

        def ui(fresh=True):
            return self.pick(LOCALS) if fresh else self.pick(USERS)
        stmts = ["(emit %s)" % ue() for _ in range(r.randrange(3, 7))]
        tail = " ".join("(emit %s)" % u for u in USERS) + " 0"
        body = " ".join(stmts) + " " + tail
        if inner:
            kw = "letrec-syntax" if any(x[2] for x in inner) or r.random() < 0.5 else "let-syntax"
            body = "(%s (%s) %s)" % (kw, " ".join("(%s %s)" % (n, s) for n, s, _ in inner), body)
        lam = "((lambda (%s) %s) 1 2 3 4)" % (" ".join(USERS), body)
        kw = "letrec-syntax" if any(x[2] for x in outer) or r.random() < 0.5 else "let-syntax"
        text = "(%s (%s) %s)" % (kw, " ".join("(%s %s)" % (n, s) for n, s, _ in outer), lam)
        return text, body


def pool_for(body_text):
    """names the user variables may be renamed to: anything the user's code (everything written inside the lambda that
    binds them, macro definitions included) does not itself write - a consistent renaming must not capture those"""
    used = sexpr.symbols(sexpr.parse("(" + body_text + ")")) | {"emit", "...", "_"}
    names = TMPS + KEYWORDS + PRIMS + PATNAMES + ["s", "acc2", "q", "mo0", "mo1", "mi0", "getter1", "syntax-rules"]
    seen, out = set(), []
    for n in names:
        if n not in used and n not in seen:
            seen.add(n)
            out.append(n)
    return out


def renamings(rng, body_text, count, program_text=None):
    """the first renaming is to fresh names; the others draw from the pool, half of the time preferring the names that
    the macro definitions OUTSIDE the user's lambda write (template temporaries, literals, keywords, pattern variables)"""
    pool = pool_for(body_text)
    vars_ = USERS + LOCALS
    rens = [[[v, "fresh%d" % i] for i, v in enumerate(vars_)]]
    hot = []
    if program_text:
        outer = sexpr.symbols(sexpr.parse(program_text)) - sexpr.symbols(sexpr.parse("(" + body_text + ")"))
        hot = [n for n in pool if n in outer]
    for c in range(count):
        if len(pool) < len(vars_):
            break
        if hot and c % 2 == 0:
            first = rng.sample(hot, min(len(hot), len(vars_)))
            rest = [n for n in pool if n not in first]
            tgt = first + rng.sample(rest, len(vars_) - len(first))
            rng.shuffle(tgt)
        else:
            tgt = rng.sample(pool, len(vars_))
        rens.append([[v, t] for v, t in zip(vars_, tgt)])
    return rens
